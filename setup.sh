#!/bin/sh
set -e
cd "$(dirname "$0")/engine"
GOFLAGS=-mod=vendor GOPROXY=off GOTOOLCHAIN=local go build -o gosym .
echo "gosym built"
