#!/bin/sh
set -e
cd "$(dirname "$0")/engine"
GOFLAGS=-mod=vendor GOPROXY=off GOTOOLCHAIN=local go build -o gosym .
GOFLAGS=-mod=vendor GOPROXY=off GOTOOLCHAIN=local go test -count=1 . >/dev/null && echo "engine self-tests ok"
echo "gosym built"
