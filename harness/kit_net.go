package go9p

// A scripted net.Conn: the harness feeds segments to Read and observes everything passed to Write.

import (
	"io"
	"net"
	"time"
)

type vxAddr struct{}

func (vxAddr) Network() string { return "vx" }
func (vxAddr) String() string  { return "vxpeer" }

type vxNetConn struct {
	in       chan []byte // segments delivered to Read, in order; closing it makes Read fail (disconnect)
	cur      []byte
	wire     []byte   // everything written by the library
	writes   [][]byte // one entry per Write call
	wseq     []int    // vxClock value of each Write call
	closed   bool
	failRead bool // next Read returns an error
	failWriteAfter int // Write fails once this many bytes were written (<0: never)
	nclose   int
	onWrite  chan int // optional notification per Write
	stallWrite int        // index of the Write call that blocks until released (-1: none)
	release    chan error // what the stalled Write returns
}

func vxNewNetConn() *vxNetConn {
	return &vxNetConn{in: make(chan []byte, 64), failWriteAfter: -1, stallWrite: -1, release: make(chan error, 1)}
}

func (c *vxNetConn) Read(p []byte) (int, error) {
	if len(c.cur) == 0 {
		seg, ok := <-c.in
		if !ok || c.closed {
			return 0, io.EOF
		}
		c.cur = seg
	}
	if c.closed {
		return 0, io.EOF
	}
	n := copy(p, c.cur)
	vxLibWrite(p[:n])
	c.cur = c.cur[n:]
	return n, nil
}

func (c *vxNetConn) Write(p []byte) (int, error) {
	if c.closed {
		return 0, io.ErrClosedPipe
	}
	if c.stallWrite >= 0 && len(c.writes) == c.stallWrite {
		// the peer is not reading: this Write blocks until the harness lets it fail
		c.stallWrite = -1
		return 0, <-c.release
	}
	if c.failWriteAfter >= 0 && len(c.wire)+len(p) > c.failWriteAfter {
		return 0, io.ErrClosedPipe
	}
	b := make([]byte, len(p))
	vxLibRead(p)
	copy(b, p)
	c.wire = append(c.wire, b...)
	c.writes = append(c.writes, b)
	vxLock()
	vxClock++
	c.wseq = append(c.wseq, vxClock)
	vxUnlock()
	vxEvent("write")
	if c.onWrite != nil {
		c.onWrite <- len(p)
	}
	return len(p), nil
}

func (c *vxNetConn) Close() error {
	c.nclose++
	c.closed = true
	return nil
}

// hangup simulates the peer disconnecting: pending and future Reads fail.
func (c *vxNetConn) hangup() { close(c.in) }

func (c *vxNetConn) LocalAddr() net.Addr                { return vxAddr{} }
func (c *vxNetConn) RemoteAddr() net.Addr               { return vxAddr{} }
func (c *vxNetConn) SetDeadline(t time.Time) error      { return nil }
func (c *vxNetConn) SetReadDeadline(t time.Time) error  { return nil }
func (c *vxNetConn) SetWriteDeadline(t time.Time) error { return nil }

// ---- an independent frame splitter for wire logs ----

type vxFrame struct {
	typ  uint8
	tag  uint16
	body []byte
	raw  []byte
}

// vxFrames splits a byte stream into frames by their size prefix; ok=false if the stream is malformed.
func vxFrames(b []byte) ([]vxFrame, bool) {
	var fs []vxFrame
	for len(b) > 0 {
		if len(b) < 7 {
			return fs, false
		}
		sz := int(uint32(b[0]) | uint32(b[1])<<8 | uint32(b[2])<<16 | uint32(b[3])<<24)
		if sz < 7 || sz > len(b) {
			return fs, false
		}
		fs = append(fs, vxFrame{typ: b[4], tag: uint16(b[5]) | uint16(b[6])<<8, body: b[7:sz], raw: b[:sz]})
		b = b[sz:]
	}
	return fs, true
}

func vxPkt(pack func(fc *Fcall) error, tag uint16) []byte {
	fc := NewFcall(4096)
	if err := pack(fc); err != nil {
		vxAssert(false, "harness-pack-failed")
	}
	SetTag(fc, tag)
	b := make([]byte, len(fc.Pkt))
	copy(b, fc.Pkt)
	return b
}
