package go9p

import "sync"

// Server-side harness kit: users, a scripted file-server implementation that logs every call, and helpers that
// build a connection the way the repository's own unit tests do.

type vxUserT struct {
	id   int
	name string
}

func (u *vxUserT) Name() string          { return u.name }
func (u *vxUserT) Id() int               { return u.id }
func (u *vxUserT) Groups() []Group       { return nil }
func (u *vxUserT) IsMember(g Group) bool { return false }

type vxGroupT struct {
	id   int
	name string
}

func (g *vxGroupT) Name() string    { return g.name }
func (g *vxGroupT) Id() int         { return g.id }
func (g *vxGroupT) Members() []User { return nil }

type vxUsersT struct {
	u0, u1 *vxUserT
}

func (p *vxUsersT) Uid2User(uid int) User {
	if uid == 0 {
		return p.u0
	}
	if uid == 1 {
		return p.u1
	}
	return nil
}
func (p *vxUsersT) Uname2User(uname string) User {
	if uname == "u0" {
		return p.u0
	}
	if uname == "u1" {
		return p.u1
	}
	return nil
}
func (p *vxUsersT) Gid2Group(gid int) Group        { return &vxGroupT{gid, "g"} }
func (p *vxUsersT) Gname2Group(gname string) Group { return &vxGroupT{0, gname} }

// vxClock orders implementation calls and transport writes in one sequence (harness bookkeeping).
var vxClock int

// ---- scripted implementation ----

const (
	vxOutOK        = 0 // answer with the matching R-message
	vxOutErr       = 1 // answer with an error
	vxOutNone      = 2 // do not answer (request stays "saved")
	vxOutTwice     = 3 // answer, then answer again
	vxOutPartial   = 4 // walk only: return fewer qids than names
	vxOutTwiceConc = 5 // two goroutines of the implementation answer the same request at the same time
)

type vxCall struct {
	op     string
	req    *SrvReq
	fid    *SrvFid
	afid   *SrvFid
	newfid *SrvFid
	fidno  uint32
	user   User
	locks  int
	seq    int
	tag    uint16
}

type vxOps struct {
	calls      []vxCall
	destroyed  []*SrvFid
	destroyNo  []uint32
	outcome    int
	partialN   int
	qid        Qid
	data       []byte
	dir        *Dir
	count      uint32
	errText    string
	authErr    error
	authCalls  []vxCall
	flushed    []*SrvReq
	flushCall  bool // FlushOp calls req.Flush()
	direct     bool // Read fills req.Rc in place (InitRread/SetRreadCount) instead of calling RespondRread
	hook       func(op string, req *SrvReq)
	opened     int
	closed     int
	lockViol   int
	echo       bool
	mu         sync.Mutex // the implementation's own lock (gives its FlushOp a happens-before edge to its workers)
	inprogress map[*SrvReq]bool
	savedCh    chan *SrvReq         // requests the implementation left unanswered (outcome vxOutNone)
	gate       map[uint16]chan bool // per-tag gates: the implementation parks until released
	onDestroy  func(fid *SrvFid)    // optional: called from FidDestroy after the fid was logged
}

func (o *vxOps) note(op string, req *SrvReq) {
	c := vxCall{op: op, req: req, fid: req.Fid, afid: req.Afid, newfid: req.Newfid, locks: vxHeldLocks(), tag: req.Tc.Tag}
	if req.Fid != nil {
		c.fidno = req.Fid.fid
		c.user = req.Fid.User
	}
	vxLock()
	if c.locks != 0 {
		o.lockViol++
	}
	vxClock++
	c.seq = vxClock
	o.calls = append(o.calls, c)
	vxUnlock()
	if o.inprogress != nil {
		o.mu.Lock()
		o.inprogress[req] = true
		o.mu.Unlock()
	}
	vxEvent("ops:" + op)
	vxJitter()
	if o.hook != nil {
		o.hook(op, req)
	}
	if o.gate != nil {
		if g, ok := o.gate[req.Tc.Tag]; ok {
			<-g
		}
	}
}

func (o *vxOps) answer(req *SrvReq, ok func()) {
	switch o.outcome {
	case vxOutOK, vxOutPartial:
		ok()
	case vxOutErr:
		req.RespondError(&Error{o.errText, 42})
	case vxOutNone:
		// hand the unanswered request over through a channel (a real implementation would synchronise too)
		if o.savedCh != nil {
			o.savedCh <- req
		}
	case vxOutTwice:
		ok()
		ok()
	case vxOutTwiceConc:
		fin := make(chan bool, 1)
		go func() {
			ok()
			fin <- true
		}()
		ok()
		<-fin
	}
}

func (o *vxOps) Attach(req *SrvReq) {
	o.note("attach", req)
	o.answer(req, func() { req.RespondRattach(&o.qid) })
}
func (o *vxOps) Walk(req *SrvReq) {
	o.note("walk", req)
	o.answer(req, func() {
		n := len(req.Tc.Wname)
		if o.outcome == vxOutPartial && o.partialN < n {
			n = o.partialN
		}
		qs := make([]Qid, n)
		for i := range qs {
			qs[i] = o.qid
		}
		req.RespondRwalk(qs)
	})
}
func (o *vxOps) Open(req *SrvReq) {
	o.note("open", req)
	o.answer(req, func() { req.RespondRopen(&o.qid, 0) })
}
func (o *vxOps) Create(req *SrvReq) {
	o.note("create", req)
	o.answer(req, func() { req.RespondRcreate(&o.qid, 0) })
}
func (o *vxOps) Read(req *SrvReq) {
	o.note("read", req)
	o.answer(req, func() {
		if o.echo && o.direct {
			// the way Ufs.Read answers: fill the request's own reply buffer in place, then Respond
			rc := req.Rc
			if InitRread(rc, 2) == nil {
				rc.Data[0], rc.Data[1] = byte(req.Tc.Offset), byte(req.Tc.Offset>>8)
				SetRreadCount(rc, 2)
				req.Respond()
			}
			return
		}
		if o.echo {
			// content determined by the request: the two low bytes of the offset
			req.RespondRread([]byte{byte(req.Tc.Offset), byte(req.Tc.Offset >> 8)})
			return
		}
		req.RespondRread(o.data)
	})
}
func (o *vxOps) Write(req *SrvReq) {
	o.note("write", req)
	o.answer(req, func() {
		if o.echo {
			req.RespondRwrite(uint32(req.Tc.Offset) ^ 0x5a5a)
			return
		}
		req.RespondRwrite(o.count)
	})
}
func (o *vxOps) Clunk(req *SrvReq) {
	o.note("clunk", req)
	o.answer(req, func() { req.RespondRclunk() })
}
func (o *vxOps) Remove(req *SrvReq) {
	o.note("remove", req)
	o.answer(req, func() { req.RespondRremove() })
}
func (o *vxOps) Stat(req *SrvReq) {
	o.note("stat", req)
	o.answer(req, func() { req.RespondRstat(o.dir) })
}
func (o *vxOps) Wstat(req *SrvReq) {
	o.note("wstat", req)
	o.answer(req, func() { req.RespondRwstat() })
}
func (o *vxOps) FidDestroy(fid *SrvFid) {
	vxLock()
	if vxHeldLocks() != 0 {
		o.lockViol++
	}
	o.destroyed = append(o.destroyed, fid)
	o.destroyNo = append(o.destroyNo, fid.fid)
	vxUnlock()
	vxEvent("destroy")
	if o.onDestroy != nil {
		o.onDestroy(fid)
	}
}
func (o *vxOps) ConnOpened(c *Conn) {
	if vxHeldLocks() != 0 {
		o.lockViol++
	}
	o.opened++
}
func (o *vxOps) ConnClosed(c *Conn) {
	if vxHeldLocks() != 0 {
		o.lockViol++
	}
	o.closed++
	vxEvent("connclosed")
}

func (o *vxOps) ncalls(op string) int {
	n := 0
	for _, c := range o.calls {
		if c.op == op {
			n++
		}
	}
	return n
}

func (o *vxOps) ndestroyed(f *SrvFid) int {
	n := 0
	for _, d := range o.destroyed {
		if d == f {
			n++
		}
	}
	return n
}

// with authentication
type vxOpsAuth struct{ *vxOps }

func (o vxOpsAuth) AuthInit(afid *SrvFid, aname string) (*Qid, error) {
	o.authCalls = append(o.authCalls, vxCall{op: "authinit", afid: afid, locks: vxHeldLocks()})
	if o.outcome == vxOutErr {
		return nil, &Error{o.errText, 43}
	}
	q := o.qid
	return &q, nil
}
func (o vxOpsAuth) AuthDestroy(afid *SrvFid) {
	o.authCalls = append(o.authCalls, vxCall{op: "authdestroy", afid: afid, locks: vxHeldLocks()})
}
func (o vxOpsAuth) AuthCheck(fid *SrvFid, afid *SrvFid, aname string) error {
	o.authCalls = append(o.authCalls, vxCall{op: "authcheck", fid: fid, afid: afid, locks: vxHeldLocks()})
	vxEvent("authcheck")
	return o.authErr
}
func (o vxOpsAuth) AuthRead(afid *SrvFid, offset uint64, data []byte) (int, error) {
	o.authCalls = append(o.authCalls, vxCall{op: "authread", afid: afid, locks: vxHeldLocks()})
	if o.outcome == vxOutErr {
		return 0, &Error{o.errText, 43}
	}
	n := copy(data, o.data)
	return n, nil
}
func (o vxOpsAuth) AuthWrite(afid *SrvFid, offset uint64, data []byte) (int, error) {
	o.authCalls = append(o.authCalls, vxCall{op: "authwrite", afid: afid, locks: vxHeldLocks()})
	if o.outcome == vxOutErr {
		return 0, &Error{o.errText, 43}
	}
	return len(data), nil
}

// with FlushOp
type vxOpsFlush struct{ *vxOps }

// A well-behaved FlushOp cancels only requests it has been handed (it synchronises with its own workers).
func (o vxOpsFlush) Flush(req *SrvReq) {
	if vxHeldLocks() != 0 { // C08: no library lock is held across a FlushOp call
		o.lockViol++
	}
	o.mu.Lock()
	known := o.inprogress[req]
	o.flushed = append(o.flushed, req)
	o.mu.Unlock()
	vxEvent("ops:flush")
	if o.flushCall && known {
		req.Flush()
	}
}

type vxOpsAuthFlush struct {
	vxOpsAuth
}

func (o vxOpsAuthFlush) Flush(req *SrvReq) {
	if vxHeldLocks() != 0 { // C08: no library lock is held across a FlushOp call
		o.lockViol++
	}
	o.mu.Lock()
	known := o.inprogress[req]
	o.flushed = append(o.flushed, req)
	o.mu.Unlock()
	if o.flushCall && known {
		req.Flush()
	}
}

// ---- kit ----

type vxKit struct {
	srv   *Srv
	conn  *Conn
	ops   *vxOps
	users *vxUsersT
}

func vxNewKit(withAuth bool, withFlush bool, msize uint32, dotu bool) *vxKit {
	k := new(vxKit)
	k.users = &vxUsersT{u0: &vxUserT{0, "u0"}, u1: &vxUserT{1, "u1"}}
	k.ops = &vxOps{errText: "ops error", dir: &Dir{Name: "f", Uid: "u", Gid: "g", Muid: "m"}}
	k.srv = &Srv{Dotu: true, Msize: msize, Upool: k.users, Log: &Logger{}}
	var impl interface{}
	switch {
	case withAuth && withFlush:
		k.ops.inprogress = map[*SrvReq]bool{}
		impl = vxOpsAuthFlush{vxOpsAuth{k.ops}}
	case withAuth:
		impl = vxOpsAuth{k.ops}
	case withFlush:
		k.ops.inprogress = map[*SrvReq]bool{}
		impl = vxOpsFlush{k.ops}
	default:
		impl = k.ops
	}
	vxAssert(k.srv.Start(impl), "kit-start")
	k.srv.Msize = msize
	k.conn = k.newConn(msize, dotu)
	return k
}

func (k *vxKit) newConn(msize uint32, dotu bool) *Conn {
	return &Conn{
		Srv:     k.srv,
		Msize:   msize,
		Dotu:    dotu,
		fidpool: make(map[uint32]*SrvFid),
		reqs:    make(map[uint16]*SrvReq),
		reqout:  make(chan *SrvReq, 8),
		rchan:   make(chan *Fcall, 8),
	}
}

// addFid installs a fid in the table exactly as a successful attach would leave it.
func (k *vxKit) addFid(conn *Conn, no uint32, user User, qtype uint8) *SrvFid {
	f := conn.FidNew(no)
	f.User = user
	f.Type = qtype
	return f
}

// newReq registers a request the way Conn.recv does.
func (k *vxKit) newReq(conn *Conn, tc *Fcall, bufsz uint32) *SrvReq {
	req := &SrvReq{Tc: tc, Rc: NewFcall(bufsz), Conn: conn}
	conn.Lock()
	req.next = conn.reqs[tc.Tag]
	conn.reqs[tc.Tag] = req
	if req.next != nil {
		req.next.prev = req
	}
	conn.Unlock()
	return req
}

// replies drains the connection's reply queue.
func (k *vxKit) replies(conn *Conn) []*SrvReq {
	var r []*SrvReq
	for {
		select {
		case q := <-conn.reqout:
			r = append(r, q)
		default:
			return r
		}
	}
}

func vxIsError(rc *Fcall, text string) bool {
	return rc != nil && rc.Type == Rerror && rc.Error == text
}
