package go9p

// C15 (client part, H15.clnt) — File.Readdir(0) returns the complete set of entries, for any directory size.
//
// The real client reads a directory from a *model directory server* that obeys the window rule H15.window
// establishes for Ufs: a Tread at offset 0 or at an entry boundary returns as many whole stat records as fit the
// requested count (at least one, else an error "too small"), an empty reply at the end; any other offset is a
// protocol violation by the reader. k <= 3 entries whose names/uids have chosen lengths and symbolic bytes (so the
// records differ in size); msize ranges over every value from "the largest entry just fits" to "everything fits".

type vxDirSrv struct {
	recs     [][]byte // encoded stat records
	starts   []int    // start offset of each record; starts[k] = total
	badOff   bool     // the client read at an offset that is neither 0 nor an entry boundary
	tooSmall bool     // the client asked for less than the next entry
	nreads   int
}

func (m *vxDirSrv) onReq(p *vxPeer, r *vxPReq) {
	b := r.f.body
	switch r.f.typ {
	case Tread:
		off := vxLE64(b[4:])
		cnt := int(vxLE32(b[12:]))
		m.nreads++
		k := len(m.recs)
		i := -1
		for j := 0; j <= k; j++ {
			if uint64(m.starts[j]) == off {
				i = j
			}
		}
		if i < 0 {
			m.badOff = true
			p.send(r, p.errorReply(r, "bad offset in directory read", 22), 0)
			return
		}
		var data []byte
		for ; i < k && len(data)+len(m.recs[i]) <= cnt; i++ {
			data = append(data, m.recs[i]...)
		}
		if len(data) == 0 && i < k {
			m.tooSmall = true
			p.send(r, p.errorReply(r, "too small read size for dir entry", 22), 0)
			return
		}
		p.send(r, refEncode(Rread, r.f.tag, []refItem{{kind: rkData, cnt: uint32(len(data)), b: data}}, p.dotu), 0)
	case Tclunk:
		p.send(r, refEncode(Rclunk, r.f.tag, nil, p.dotu), 0)
	default:
		p.send(r, p.errorReply(r, "model: unexpected request", 22), 0)
	}
}

// k entries; slack < 0: msize ranges (vxChoose) over largest+IOHDRSZ .. total+IOHDRSZ+1; slack >= 0: msize =
// largest + IOHDRSZ + slack.
func vxH15Clnt(k int, slack int, dotu bool) {
	nc := vxNewCConn()
	dirs := make([]*Dir, k)
	m := &vxDirSrv{}
	total, largest := 0, 0
	for i := range dirs {
		d := &Dir{Type: vxU16("type"), Dev: vxU32("dev"), Qid: vxSymQid("qid"), Mode: vxU32("mode"), Atime: vxU32("atime"), Mtime: vxU32("mtime"), Length: vxU64("length")}
		d.Name = vxString("name", 1+2*i)
		d.Uid = vxString("uid", (i+1)%3)
		d.Gid = "g"
		d.Muid = ""
		if dotu {
			d.Ext = vxString("ext", i%2)
			d.Uidnum, d.Gidnum, d.Muidnum = vxU32("nuid"), vxU32("ngid"), vxU32("nmuid")
		}
		dirs[i] = d
		rec := refStat(d, dotu)
		m.recs = append(m.recs, rec)
		m.starts = append(m.starts, total)
		total += len(rec)
		if len(rec) > largest {
			largest = len(rec)
		}
	}
	m.starts = append(m.starts, total)
	var msize int
	if slack == -2 {
		// the first entry just fits, a later one does not: the listing cannot be completed, and says so
		msize = len(m.recs[0]) + IOHDRSZ
		vxAssume(largest > len(m.recs[0]))
	} else if slack < 0 {
		msize = largest + IOHDRSZ + vxChoose("msize", total-largest+2)
	} else {
		msize = largest + IOHDRSZ + slack
	}
	clnt := vxNewClient(nc, uint32(msize), dotu, 3)
	vxNewPeer(nc, dotu, m.onReq)
	// a fid as Open leaves it when the server reports iounit 0
	fid := &Fid{Clnt: clnt, Fid: 9, walked: true, Iounit: uint32(msize) - IOHDRSZ, Mode: OREAD}
	f := FidFile(fid, 0)
	got, err := f.Readdir(0)
	if slack == -2 {
		vxAssert(m.tooSmall, "model-refused-an-entry")
		vxAssert(err != nil || len(got) == k, "a-listing-returned-without-error-is-complete")
		vxReach("done")
		return
	}
	vxAssert(err == nil, "readdir-succeeds-when-the-largest-entry-fits")
	vxAssert(!m.badOff, "reads-follow-the-offset-rule")
	vxAssert(!m.tooSmall, "reads-ask-for-at-least-the-largest-entry")
	vxAssert(len(got) == k, "readdir-returns-every-entry-exactly-once")
	if err == nil && len(got) == k {
		for i, d := range got {
			vxAssert(d != nil && refDirEq(d, dirs[i], dotu), "entries-decoded-exactly-and-in-order")
		}
	}
	vxReach("done")
}
