package go9p

import "time"

func vxSleepMs(n int) { time.Sleep(time.Duration(n) * time.Millisecond) }
