package go9p

// Client-side harness kit: a scripted transport for a real Clnt, a scripted peer that plays the server behind it,
// and caller goroutines that issue ordinary client calls and record what they got back.
//
// Transport (vxCConn). kit_net.go's vxNetConn is fine for the server side, but its Close only sets a flag: a Read
// that is already parked stays parked, whereas Close on a real net.Conn fails pending Reads. The client relies on
// exactly that (Unmount, and send/recv closing the socket on errors), so the client kit has its own net.Conn:
//   * Read  : next segment pushed by the peer; never (0,nil) for a non-empty buffer, (0,nil) for an empty one (what
//             net.Conn implementations do); after the peer's end-of-stream marker: io.EOF for good (data pushed
//             before the marker is delivered first, like a TCP FIN); after a local Close: error.
//   * Write : appends to the wire log and notifies the peer (inline hook or onWrite channel); fails after Close or
//             once failWriteAt bytes would be exceeded. Write never blocks (a peer that stops reading is outside).
//   * Close : idempotent; wakes a parked Read.

import (
	"io"
	"net"
	"runtime"
	"strings"
	"sync"
	"sync/atomic"
	"time"
)

type vxCConn struct {
	in          chan []byte // peer -> client segments; a nil segment is the end-of-stream marker
	dead        chan bool   // closed by the first local Close
	once        sync.Once
	closedFlag  uint32 // 1 after the first local Close (read without a scheduling point)
	cur         []byte
	eof         bool
	wire        []byte // everything the library wrote
	nwrites     int
	nclose      int32
	failWriteAt int            // a Write that would make len(wire) exceed this fails (<0: never)
	hook        func(b []byte) // called (in the writer's goroutine) after every successful Write, with a copy of the bytes
	onWrite     chan []byte    // alternatively: a copy of the bytes of every Write, for a peer goroutine
	nread       int64          // bytes handed to the library (atomic)
	readMax     int            // > 0: a Read returns at most this many bytes (models finer segmentation)
	stallWrite int    // index of the Write call that blocks until Close (-1: none)
	onStall    func() // called when that Write starts to block
	zeroReads  int    // consecutive-or-not Reads with an empty buffer
}

func vxNewCConn() *vxCConn {
	return &vxCConn{in: make(chan []byte, 64), dead: make(chan bool), failWriteAt: -1, stallWrite: -1}
}

type vxConnErr struct{ s string }

func (e *vxConnErr) Error() string { return e.s }

var vxErrConnClosed = &vxConnErr{"use of closed connection"}

func (c *vxCConn) Read(p []byte) (int, error) {
	if len(p) == 0 {
		// a full receive buffer: a real connection returns (0, nil) at once; a client that keeps asking spins forever
		c.zeroReads++
		vxAssert(c.zeroReads < 4, "receive-loop-does-not-spin-on-a-full-buffer")
		return 0, nil
	}
	if len(c.cur) == 0 {
		if c.eof {
			return 0, io.EOF
		}
		if c.isClosed() {
			return 0, vxErrConnClosed
		}
		select {
		case seg := <-c.in:
			if seg == nil {
				c.eof = true
				return 0, io.EOF
			}
			c.cur = seg
		case <-c.dead:
			return 0, vxErrConnClosed
		}
	}
	if c.readMax > 0 && len(p) > c.readMax {
		p = p[:c.readMax]
	}
	n := copy(p, c.cur)
	vxLibWrite(p[:n])
	c.cur = c.cur[n:]
	atomic.AddInt64(&c.nread, int64(n))
	return n, nil
}

func (c *vxCConn) bytesRead() int { return int(atomic.LoadInt64(&c.nread)) }

func (c *vxCConn) isClosed() bool { return atomic.LoadUint32(&c.closedFlag) != 0 }

func (c *vxCConn) Write(p []byte) (int, error) {
	if c.isClosed() {
		return 0, vxErrConnClosed
	}
	if c.stallWrite >= 0 && c.nwrites == c.stallWrite {
		// the peer has stopped reading: this Write blocks until the connection is closed locally
		c.stallWrite = -1
		if c.onStall != nil {
			c.onStall()
		}
		<-c.dead
		return 0, vxErrConnClosed
	}
	if c.failWriteAt >= 0 && len(c.wire)+len(p) > c.failWriteAt {
		return 0, io.ErrClosedPipe
	}
	vxLibRead(p)
	c.wire = append(c.wire, p...)
	c.nwrites++
	if c.hook != nil || c.onWrite != nil {
		b := make([]byte, len(p))
		copy(b, p)
		if c.hook != nil {
			c.hook(b)
		}
		if c.onWrite != nil {
			c.onWrite <- b
		}
	}
	return len(p), nil
}

func (c *vxCConn) Close() error {
	atomic.AddInt32(&c.nclose, 1)
	c.once.Do(func() {
		atomic.StoreUint32(&c.closedFlag, 1)
		close(c.dead)
	})
	return nil
}

// push hands a segment to the client (never blocks: the queue is large enough for every harness).
func (c *vxCConn) push(seg []byte) {
	if len(seg) == 0 {
		return
	}
	b := make([]byte, len(seg))
	copy(b, seg)
	c.in <- b
}

// pushCut delivers b in two segments split at cut (one segment if cut is 0 or >= len(b)).
func (c *vxCConn) pushCut(b []byte, cut int) {
	if cut <= 0 || cut >= len(b) {
		c.push(b)
		return
	}
	c.push(b[:cut])
	c.push(b[cut:])
}

// hangup: the peer ends the stream; everything pushed before is still delivered.
func (c *vxCConn) hangup() { c.in <- nil }

func (c *vxCConn) LocalAddr() net.Addr                { return vxCAddr{} }
func (c *vxCConn) RemoteAddr() net.Addr               { return vxCAddr{} }
func (c *vxCConn) SetDeadline(t time.Time) error      { return nil }
func (c *vxCConn) SetReadDeadline(t time.Time) error  { return nil }
func (c *vxCConn) SetWriteDeadline(t time.Time) error { return nil }

// ---- an independent frame splitter (own copy: the client kit does not depend on the server-side kit files) ----

type vxCAddr struct{}

func (vxCAddr) Network() string { return "vx" }
func (vxCAddr) String() string  { return "vxpeer" }

type vxCFrame struct {
	typ  uint8
	tag  uint16
	body []byte
	raw  []byte
}

// vxCFrames splits a byte stream into frames by their size prefix; ok=false if the stream is malformed or ends
// inside a frame (the complete frames before that point are still returned).
func vxCFrames(b []byte) ([]vxCFrame, bool) {
	var fs []vxCFrame
	for len(b) > 0 {
		if len(b) < 7 {
			return fs, false
		}
		sz := int(uint32(b[0]) | uint32(b[1])<<8 | uint32(b[2])<<16 | uint32(b[3])<<24)
		if sz < 7 || sz > len(b) {
			return fs, false
		}
		fs = append(fs, vxCFrame{typ: b[4], tag: uint16(b[5]) | uint16(b[6])<<8, body: b[7:sz], raw: b[:sz]})
		b = b[sz:]
	}
	return fs, true
}

// ---- client construction ----

// vxNewClient: ntags <= 0 builds the client with the library constructor NewClnt (tag pool 0..65534, filled by a
// 65535-iteration loop); ntags > 0 builds the same object as a literal with a pool of ntags tags, exactly the
// fields NewClnt sets, and starts the two service goroutines (the repository's own tests build Clnt literals too).
func vxNewClient(nc net.Conn, msize uint32, dotu bool, ntags int) *Clnt {
	if ntags <= 0 {
		clnt := NewClnt(nc, msize, dotu)
		vxQuiesce()
		return clnt
	}
	clnt := &Clnt{
		conn:    nc,
		Msize:   msize,
		Dotu:    dotu,
		Id:      "vxpeer:",
		tagpool: NewPool(0, uint32(ntags)),
		reqout:  make(chan *Req),
		done:    make(chan bool),
		closed:  make(chan bool),
		reqchan: make(chan *Req, 16),
		tchan:   make(chan *Fcall, 16),
	}
	// Let each service goroutine reach its first wait before anything else happens: their start-up touches
	// nothing shared (recv sizes its buffer from Msize and parks in Read, send parks in its select), so every
	// later interleaving is still explored; only the irrelevant start-up permutations are not multiplied in.
	go clnt.recv()
	vxQuiesce()
	go clnt.send()
	vxQuiesce()
	return clnt
}

// ---- scripted peer ----

type vxPReq struct {
	f        vxCFrame
	idx      int  // arrival index
	answered bool // a reply (of any kind) was pushed
}

type vxPeer struct {
	nc      *vxCConn
	dotu    bool
	wire    []byte // the bytes the peer was handed so far (its own copy: it never looks at the connection's log)
	seen    int    // bytes of wire already split into frames
	reqs    []*vxPReq
	dupTag  bool                       // a request arrived whose tag equals that of an unanswered earlier request
	badWire bool                       // the client wrote something that is not a sequence of frames
	maxOut  int                        // largest number of simultaneously outstanding requests seen
	onReq   func(p *vxPeer, r *vxPReq) // strategy: called once per arriving request
	sentLen int                        // bytes pushed so far
	stopped uint32                     // atomic: 1 = the strategy is no longer consulted
	gen     uint32                     // atomic: bumped after every absorb (see sync)
}

// vxNewPeer installs the peer as the connection's inline write hook: it runs in the goroutine that called Write,
// right after the bytes are on the wire. Replies are queued in nc.in and reach the client when its receive loop
// next reads, i.e. at a moment chosen by the schedule.
func vxNewPeer(nc *vxCConn, dotu bool, onReq func(p *vxPeer, r *vxPReq)) *vxPeer {
	p := &vxPeer{nc: nc, dotu: dotu, onReq: onReq}
	nc.hook = p.absorb
	return p
}

// vxNewPeerGo runs the same peer as a goroutine of its own, woken through nc.onWrite.
func vxNewPeerGo(nc *vxCConn, dotu bool, onReq func(p *vxPeer, r *vxPReq)) *vxPeer {
	p := &vxPeer{nc: nc, dotu: dotu, onReq: onReq}
	nc.onWrite = make(chan []byte, 64)
	go func() {
		for {
			p.absorb(<-nc.onWrite)
		}
	}()
	return p
}

func (p *vxPeer) outstanding() int {
	n := 0
	for _, r := range p.reqs {
		if !r.answered {
			n++
		}
	}
	return n
}

// absorb splits newly written bytes into frames, checks tag distinctness, and lets the strategy react.
func (p *vxPeer) absorb(b []byte) {
	p.wire = append(p.wire, b...)
	fs, ok := vxCFrames(p.wire[p.seen:])
	if !ok {
		// the library writes one whole frame per Write, so a partial frame here is a library defect
		p.badWire = true
	}
	for _, f := range fs {
		p.seen += len(f.raw)
		r := &vxPReq{f: f, idx: len(p.reqs)}
		for _, o := range p.reqs {
			if !o.answered && o.f.tag == f.tag {
				p.dupTag = true
			}
		}
		p.reqs = append(p.reqs, r)
		if n := p.outstanding(); n > p.maxOut {
			p.maxOut = n
		}
		if p.onReq != nil && atomic.LoadUint32(&p.stopped) == 0 {
			p.onReq(p, r)
		}
	}
	atomic.AddUint32(&p.gen, 1)
}

// stop: the strategy is not consulted for later requests.
func (p *vxPeer) stop() { atomic.StoreUint32(&p.stopped, 1) }

// sync orders everything the peer did (in whichever goroutine called Write) before what the caller does next.
// Harness bookkeeping is shared between goroutines; under the engine a quiescent state is a global cut anyway, but
// natively (witness and counterexample replays, also under the race detector) an atomic release/acquire pair is
// what makes reading it after vxQuiesce() well defined, and keeps the race detector quiet about harness code.
func (p *vxPeer) sync() { atomic.LoadUint32(&p.gen) }

// synced: how many Writes the peer has digested so far.
func (p *vxPeer) synced() int { return int(atomic.LoadUint32(&p.gen)) }

// send pushes a reply for r (cut in two segments at cut if 0 < cut < len).
func (p *vxPeer) send(r *vxPReq, pkt []byte, cut int) {
	if r != nil {
		r.answered = true
	}
	p.sentLen += len(pkt)
	p.nc.pushCut(pkt, cut)
}

func vxLE32(b []byte) uint32 {
	return uint32(b[0]) | uint32(b[1])<<8 | uint32(b[2])<<16 | uint32(b[3])<<24
}
func vxLE64(b []byte) uint64 { return uint64(vxLE32(b)) | uint64(vxLE32(b[4:]))<<32 }
func vxLE16(b []byte) uint16 { return uint16(b[0]) | uint16(b[1])<<8 }

// fidOf: every T-message the client kit issues starts with fid[4]; harness fids are concrete.
func (r *vxPReq) fidOf() uint32 {
	if len(r.f.body) < 4 {
		return NOFID
	}
	return vxLE32(r.f.body)
}

// ---- reply payloads derived from the request bytes (independent of go9p's decoder) ----

const (
	vxKindMatch = 0 // the matching R-message, payload derived from the request
	vxKindError = 1 // Rerror(text, ecode)
	vxKindWrong = 2 // a well-formed R-message of another type, correctly tagged
)

// vxDeriveQid: a qid that is a function of one name byte.
func vxDeriveQid(b byte) Qid {
	return Qid{Type: b ^ 0x80, Version: uint32(b) + 7, Path: uint64(b)<<8 | 0x42}
}

// vxDeriveDir: a stat that is a function of the fid number.
func vxDeriveDir(fid uint32, dotu bool) *Dir {
	d := &Dir{Type: uint16(fid), Dev: fid + 1, Qid: Qid{Type: 0, Version: fid, Path: uint64(fid) * 3}, Mode: 0644, Atime: fid, Mtime: fid + 2,
		Length: uint64(fid) << 4, Name: "n", Uid: "u", Gid: "g", Muid: "m"}
	if dotu {
		d.Ext = "x"
		d.Uidnum = fid + 3
		d.Gidnum = fid + 4
		d.Muidnum = fid + 5
	}
	return d
}

// matchingReply builds, from the raw request frame, the R-message a server would send, with a payload that is a
// fixed function of the request's content: Tread(offset) -> the low two bytes of the offset (clipped to count);
// Twrite(offset) -> count = low^high 32 bits of the offset ^ 0x5a5a; Tstat -> vxDeriveDir(fid); Twalk -> one
// derived qid per one-byte name; Tclunk/Tremove/Topen/...: the plain reply.
func (p *vxPeer) matchingReply(r *vxPReq) []byte {
	b := r.f.body
	tag := r.f.tag
	switch r.f.typ {
	case Tread:
		off := vxLE64(b[4:])
		cnt := vxLE32(b[12:])
		data := []byte{byte(off), byte(off >> 8)}
		if cnt < 2 {
			// count is concrete in every harness that uses this reply
			data = data[:cnt]
		}
		return refEncode(Rread, tag, []refItem{{kind: rkData, cnt: uint32(len(data)), b: data}}, p.dotu)
	case Twrite:
		off := vxLE64(b[4:])
		return refEncode(Rwrite, tag, []refItem{refU32(uint32(off) ^ uint32(off>>32) ^ 0x5a5a)}, p.dotu)
	case Tstat:
		return refEncode(Rstat, tag, []refItem{{kind: rkStatN, d: vxDeriveDir(vxLE32(b), p.dotu)}}, p.dotu)
	case Twalk:
		n := int(vxLE16(b[8:]))
		qs := make([]Qid, 0, n)
		q := b[10:]
		for i := 0; i < n; i++ {
			l := int(vxLE16(q))
			var c byte
			if l > 0 {
				c = q[2]
			}
			qs = append(qs, vxDeriveQid(c))
			q = q[2+l:]
		}
		return refEncode(Rwalk, tag, []refItem{{kind: rkNqid, qs: qs}}, p.dotu)
	case Tclunk, Tremove, Twstat, Tflush:
		return refEncode(r.f.typ+1, tag, nil, p.dotu)
	case Topen, Tcreate:
		return refEncode(r.f.typ+1, tag, []refItem{refQ(vxDeriveQid(byte(vxLE32(b)))), refU32(0)}, p.dotu)
	case Tversion:
		return refEncode(Rversion, tag, []refItem{refU32(vxLE32(b)), refS("9P2000")}, p.dotu)
	}
	return refEncode(Rclunk, tag, nil, p.dotu)
}

func (p *vxPeer) errorReply(r *vxPReq, text string, ecode uint32) []byte {
	items := []refItem{refS(text)}
	if p.dotu {
		items = append(items, refU32(ecode))
	}
	return refEncode(Rerror, r.f.tag, items, p.dotu)
}

// wrongReply: a well-formed, correctly tagged R-message whose type is not the request's type + 1 and not Rerror.
func (p *vxPeer) wrongReply(r *vxPReq) []byte {
	if r.f.typ == Tclunk {
		return refEncode(Rremove, r.f.tag, nil, p.dotu)
	}
	return refEncode(Rclunk, r.f.tag, nil, p.dotu)
}

// ---- callers ----

const (
	vxOpRead  = 0
	vxOpWrite = 1
	vxOpStat  = 2
	vxOpWalk  = 3
)

// vxCaller: one client call with (partly symbolic) arguments; fid numbers are concrete and identify the caller.
type vxCaller struct {
	id     int
	op     int
	fid    *Fid
	newfid *Fid
	off    uint64
	data   []byte   // Twrite payload
	names  []string // Twalk names (one byte each)
	// results
	fin    uint32 // atomic: 1 once the call has returned and the results above are final
	err    error
	rdata  []byte
	rcount int
	rdir   *Dir
	rqids  []Qid
}

func vxFidNo(i int) uint32 { return uint32(100 + i) }

// vxNewCaller draws the symbolic arguments (call this in the main goroutine, before any goroutine is started, so
// that the order of nondeterministic draws does not depend on the schedule).
func vxNewCaller(clnt *Clnt, i int, op int) *vxCaller {
	c := &vxCaller{id: i, op: op}
	c.fid = &Fid{Clnt: clnt, Fid: vxFidNo(i), Iounit: 8, walked: true}
	switch op {
	case vxOpRead:
		c.off = vxU64("offset")
	case vxOpWrite:
		c.off = vxU64("offset")
		c.data = vxBytes("wdata", 2)
	case vxOpWalk:
		c.newfid = &Fid{Clnt: clnt, Fid: vxFidNo(i) + 50}
		c.names = []string{vxString("wname", 1), vxString("wname", 1)}
	}
	return c
}

func (c *vxCaller) call(clnt *Clnt) {
	switch c.op {
	case vxOpRead:
		c.rdata, c.err = clnt.Read(c.fid, c.off, 2)
	case vxOpWrite:
		c.rcount, c.err = clnt.Write(c.fid, c.data, c.off)
	case vxOpStat:
		c.rdir, c.err = clnt.Stat(c.fid)
	case vxOpWalk:
		c.rqids, c.err = clnt.Walk(c.fid, c.newfid, c.names)
	}
	atomic.StoreUint32(&c.fin, 1)
}

// returned: the call has come back (acquire: the result fields may be read afterwards).
func (c *vxCaller) returned() bool { return atomic.LoadUint32(&c.fin) != 0 }

// wantRequest: the exact bytes this caller's request must have on the wire (for a given tag), built with the
// independent encoder.
func (c *vxCaller) wantRequest(tag uint16, dotu bool) []byte {
	switch c.op {
	case vxOpRead:
		return refEncode(Tread, tag, []refItem{refU32(c.fid.Fid), refU64(c.off), refU32(2)}, dotu)
	case vxOpWrite:
		return refEncode(Twrite, tag, []refItem{refU32(c.fid.Fid), refU64(c.off), {kind: rkData, cnt: uint32(len(c.data)), b: c.data}}, dotu)
	case vxOpStat:
		return refEncode(Tstat, tag, []refItem{refU32(c.fid.Fid)}, dotu)
	case vxOpWalk:
		return refEncode(Twalk, tag, []refItem{refU32(c.fid.Fid), refU32(c.newfid.Fid), {kind: rkNstr, ss: c.names}}, dotu)
	}
	return nil
}

// gotMatching: the call returned success with exactly the payload the peer derives from this caller's request.
func (c *vxCaller) gotMatching(dotu bool) bool {
	if c.err != nil {
		return false
	}
	switch c.op {
	case vxOpRead:
		return refBytesEq(c.rdata, []byte{byte(c.off), byte(c.off >> 8)})
	case vxOpWrite:
		return c.rcount == int(uint32(c.off)^uint32(c.off>>32)^0x5a5a)
	case vxOpStat:
		return c.rdir != nil && refDirEq(c.rdir, vxDeriveDir(c.fid.Fid, dotu), dotu)
	case vxOpWalk:
		if len(c.rqids) != len(c.names) {
			return false
		}
		ok := true
		for i, q := range c.rqids {
			ok = vxAll(ok, refQidEq(q, vxDeriveQid(c.names[i][0])))
		}
		return ok
	}
	return false
}

// gotError: the call failed with a go9p *Error carrying exactly text (and, in 9P2000.u, ecode).
func (c *vxCaller) gotError(text string, ecode uint32, dotu bool) bool {
	e, ok := c.err.(*Error)
	if !ok || e == nil {
		return false
	}
	if dotu {
		return vxAll(e.Err == text, e.Errornum == ecode)
	}
	return e.Err == text
}

// noPayload: a failed call hands no data to its caller.
func (c *vxCaller) noPayload() bool {
	return c.rdata == nil && c.rcount == 0 && c.rdir == nil && c.rqids == nil
}

// vxFindReq: the request frame of caller i (by its concrete fid number), nil if it never reached the wire.
func (p *vxPeer) findReq(fid uint32, from int) *vxPReq {
	for _, r := range p.reqs[from:] {
		if r.fidOf() == fid {
			return r
		}
	}
	return nil
}

// vxAwaitCallers: run everything until nothing can move, then require that every caller returned. Under the
// engine a caller that is parked forever is turned into a HANG finding by parking the main goroutine at this site
// (nothing is runnable any more, and the finding's message lists where every goroutine is parked); natively it is
// an assertion failure.
func vxAwaitCallers(cs []*vxCaller) bool {
	all := vxSettle(func() bool {
		for _, c := range cs {
			if !c.returned() {
				return false
			}
		}
		return true
	})
	if !all {
		if vxSymbolic() {
			desc := vxParkedDesc()
			switch {
			case strings.Contains(desc, ".Rpcnb("):
				vxHangCallerParkedHandingItsRequestToTheWriter()
			case strings.Contains(desc, ".Rpc("):
				vxHangCallerParkedWaitingForItsReply()
			default:
				vxHangCallerNeverReturned()
			}
		}
		// native run: say where the goroutines are (never executed under the engine)
		buf := make([]byte, 1<<16)
		buf = buf[:runtime.Stack(buf, true)]
		for _, g := range strings.Split(string(buf), "\n\n") {
			if strings.Contains(g, "go9p.(*Clnt)") {
				lines := strings.Split(g, "\n")
				if len(lines) > 7 {
					lines = lines[:7]
				}
				vxEvent("stuck goroutine: " + strings.Join(lines, " | "))
			}
		}
		vxAssert(false, "every-call-returns")
	}
	return all
}

// vxSettle: run everything until nothing can move and report whether cond holds then. Under the engine that is one
// vxQuiesce() (exact). Natively a quiescent state can only be approximated by waiting, so the wait is repeated (up
// to ~6 s) until cond holds: a loaded machine must not turn a clean path into a spurious native failure.
func vxSettle(cond func() bool) bool {
	vxQuiesce()
	if vxSymbolic() {
		return cond()
	}
	for i := 0; i < 100 && !cond(); i++ {
		vxQuiesce()
	}
	return cond()
}

// The three parking places of the main goroutine name the diagnosis in the HANG finding's id.
func vxHangCallerParkedHandingItsRequestToTheWriter() {
	var never chan int
	<-never
}
func vxHangCallerParkedWaitingForItsReply() {
	var never chan int
	<-never
}
func vxHangCallerNeverReturned() {
	var never chan int
	<-never
}
