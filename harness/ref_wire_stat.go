package go9p

// Independent reference *decoder* for one stat record (9P2000 / 9P2000.u), written from the protocol text:
// size[2] type[2] dev[4] qid.type[1] qid.vers[4] qid.path[8] mode[4] atime[4] mtime[4] length[8]
// name[s] uid[s] gid[s] muid[s]  (.u: extension[s] n_uid[4] n_gid[4] n_muid[4]); size counts what follows it.
// Shares no code with go9p's unpack functions.

func refGetLE(b []byte, n int) uint64 {
	var v uint64
	for i := 0; i < n; i++ {
		v |= uint64(b[i]) << (8 * uint(i))
	}
	return v
}

// refParseStat decodes the record at the start of b. n = bytes consumed (size+2).
func refParseStat(b []byte, dotu bool) (d Dir, n int, ok bool) {
	if len(b) < 2 {
		return d, 0, false
	}
	sz := int(refGetLE(b, 2))
	if len(b) < 2+sz {
		return d, 0, false
	}
	rec := b[2 : 2+sz]
	if len(rec) < 39 {
		return d, 0, false
	}
	d.Size = uint16(sz)
	d.Type = uint16(refGetLE(rec[0:], 2))
	d.Dev = uint32(refGetLE(rec[2:], 4))
	d.Qid.Type = rec[6]
	d.Qid.Version = uint32(refGetLE(rec[7:], 4))
	d.Qid.Path = refGetLE(rec[11:], 8)
	d.Mode = uint32(refGetLE(rec[19:], 4))
	d.Atime = uint32(refGetLE(rec[23:], 4))
	d.Mtime = uint32(refGetLE(rec[27:], 4))
	d.Length = refGetLE(rec[31:], 8)
	pos := 39
	nstr := 4
	if dotu {
		nstr = 5
	}
	var strs [5]string
	for i := 0; i < nstr; i++ {
		if len(rec) < pos+2 {
			return d, 0, false
		}
		l := int(refGetLE(rec[pos:], 2))
		pos += 2
		if len(rec) < pos+l {
			return d, 0, false
		}
		strs[i] = string(rec[pos : pos+l])
		pos += l
	}
	d.Name, d.Uid, d.Gid, d.Muid, d.Ext = strs[0], strs[1], strs[2], strs[3], strs[4]
	if dotu {
		if len(rec) < pos+12 {
			return d, 0, false
		}
		d.Uidnum = uint32(refGetLE(rec[pos:], 4))
		d.Gidnum = uint32(refGetLE(rec[pos+4:], 4))
		d.Muidnum = uint32(refGetLE(rec[pos+8:], 4))
		pos += 12
	}
	if pos != len(rec) {
		return d, 0, false // the size field must cover exactly the fields
	}
	return d, 2 + sz, true
}
