package go9p

// H14.conc: "any sequence of offsets and counts" is also a pipelined one: two Treads on the same fid are outstanding
// together (the library's own Tag interface issues them that way). Every file-system call of the Unix file server is
// a point where the other request may run. Each reply carries the bytes at its own request's offset.
func vxH14Conc(dotu bool, n int) {
	k := vxNewUfsKit(dotu, 8192)
	root := k.rootDir()
	content := []byte{10, 11, 12, 13, 14, 15, 16, 17, 18, 19}
	k.fs.addFile(root, "f", 0644, content)
	nc := vxNewNetConn()
	k.ufs.NewConn(nc)
	ver := "9P2000"
	if dotu {
		ver = "9P2000.u"
	}
	att := []refItem{refU32(0), refU32(NOFID), refS(""), refS("")}
	if dotu {
		att = append(att, refU32(0))
	}
	for _, p := range [][]byte{
		refEncode(Tversion, NOTAG, []refItem{refU32(8192), refS(ver)}, dotu),
		refEncode(Tattach, 1, att, dotu),
		refEncode(Twalk, 1, []refItem{refU32(0), refU32(1), {kind: rkNstr, ss: []string{"f"}}}, dotu),
		refEncode(Topen, 1, []refItem{refU32(1), refU8(OREAD)}, dotu),
	} {
		nc.in <- p
		vxQuiesce()
	}
	fr, ok := vxFrames(nc.wire)
	vxAssert(ok && len(fr) == 4 && fr[3].typ == Ropen, "prologue-answered")
	if !ok || len(fr) != 4 || fr[3].typ != Ropen {
		return
	}
	mark := len(nc.wire)
	k.fs.check = func(op, path string) { vxYield() }
	offs := []uint64{0, 4, 8}[:n]
	var seg []byte
	for i, o := range offs {
		seg = append(seg, refEncode(Tread, uint16(10+i), []refItem{refU32(1), refU64(o), refU32(3)}, dotu)...)
	}
	nc.in <- seg
	vxQuiesce()
	fr, ok = vxFrames(nc.wire[mark:])
	vxAssert(ok && len(fr) == len(offs), "every-read-answered")
	if !ok || len(fr) != len(offs) {
		return
	}
	for _, f := range fr {
		i := int(f.tag) - 10
		vxAssert(f.typ == Rread && i >= 0 && i < len(offs) && len(f.body) >= 4, "read-answered-with-Rread")
		if f.typ != Rread || i < 0 || i >= len(offs) || len(f.body) < 4 {
			return
		}
		want := content[offs[i]:]
		if len(want) > 3 {
			want = want[:3]
		}
		vxAssert(refBytesEq(f.body[4:], want), "each-read-returns-the-bytes-at-its-own-offset")
	}
	vxReach("done")
}
