package go9p

// C18 — Ufs confines clients to the exported root (H18.confine).
//
// Root = /r. The client-supplied strings — attach name, walk elements (1 or 2), create name, wstat rename target —
// are symbolic strings of length 0..L over the alphabet {'.', '/', 'a'} (alphabet=4: plus 'b'; alphabet=5: {'.', '/', 'r'}); the fid used starts at depth 0, 1 or 2
// (or at the unclean spelling "/r/a/.." of the root). Every call that reaches the model FS with a path must name a
// path that an independent lexical resolver (below; "", "." and ".." resolved element by element, no symlinks by
// hypothesis) places inside /r (calls that only query — lstat/stat/readlink — are, unless strict is set, judged by
// their effect instead: no qid of an object outside /r may appear in the reply); after the request every fid of the connection must still designate something
// inside /r (so that the argument repeats: requests that only use the fid's own path stay inside as well), which
// includes "'..' at the root stays at the root". The real filepath.Join/Clean and path.Split run symbolically.
// The model tree has canaries next to and above the root (/a, /a/a, /aa) so that escaping walks can continue.

// refResolveAbs: the element list of the absolute path p after lexical resolution; ok=false if p is not absolute.
// (Own scanner: shares nothing with the model FS's resolver.)
func refResolveAbs(p string) ([]string, bool) {
	if len(p) == 0 || p[0] != '/' {
		return nil, false
	}
	var stack []string
	cur := ""
	for i := 1; i <= len(p); i++ {
		if i < len(p) && p[i] != '/' {
			cur += string(p[i])
			continue
		}
		switch cur {
		case "", ".":
		case "..":
			if len(stack) > 0 {
				stack = stack[:len(stack)-1]
			}
		default:
			stack = append(stack, cur)
		}
		cur = ""
	}
	return stack, true
}

// refInside: p lies in (or is) the directory root.
func refInside(root, p string) bool {
	rs, ok1 := refResolveAbs(root)
	ps, ok2 := refResolveAbs(p)
	if !ok1 || !ok2 || len(ps) < len(rs) {
		return false
	}
	for i := range rs {
		if ps[i] != rs[i] {
			return false
		}
	}
	return true
}

var vxAlphabet = 3 // 3: {'.', '/', 'a'}; 4: plus 'b'

func vxSymAlpha(name string, maxLen int) string {
	n := vxChoose(name+".len", maxLen+1)
	s := vxString(name, n)
	for i := 0; i < n; i++ {
		if vxAlphabet == 5 {
			// names built from the root's own name: siblings such as /rr start with the root's path
			vxAssume(vxAny(s[i] == '.', s[i] == '/', s[i] == 'r'))
		} else if vxAlphabet >= 4 {
			vxAssume(vxAny(s[i] == '.', s[i] == '/', s[i] == 'a', s[i] == 'b'))
		} else {
			vxAssume(vxAny(s[i] == '.', s[i] == '/', s[i] == 'a'))
		}
	}
	return s
}

var vxH18Ops = []string{"attach", "walk", "walk2", "create", "rename"}

func vxH18Confine(dotu bool, op int, L int, alphabet int, strict bool) {
	vxAlphabet = alphabet
	k := vxNewUfsKit(dotu, 8192)
	fs := k.fs
	root := k.rootDir()
	// inside
	a := fs.addDir(root, "a", 0755)
	aa := fs.addDir(a, "a", 0755)
	fs.addFile(aa, "a", 0644, nil)
	fs.addFile(root, "aa", 0644, nil)
	fs.addDir(root, "b", 0755)
	// canaries outside
	ca := fs.addDir(fs.root, "a", 0755)
	fs.addFile(ca, "a", 0644, nil)
	fs.addFile(fs.root, "aa", 0644, nil)
	fs.addDir(fs.root, "b", 0755)
	// siblings whose names start with the root's own name, and an object of that name inside
	cr := fs.addDir(fs.root, "rr", 0755)
	fs.addFile(cr, "r", 0644, nil)
	fs.addFile(fs.root, "r.", 0644, nil)
	fs.addFile(root, "r", 0644, nil)
	outside := vxOutsideView(fs)

	opname := vxH18Ops[op]
	id := opname + "-stays-inside-root"
	// Calls that create, open, change or remove must name a path inside the root. Pure queries (lstat/stat/readlink)
	// are judged by what the client gets to see (below) unless strict is set: a query on an outside path whose
	// result is thrown away lets the client read nothing.
	outsideQueries := 0
	fs.check = func(cop string, p string) {
		switch cop {
		case "lookup", "lookupid", "close", "readat", "writeat", "readdir":
			return
		}
		in := refInside(vxRoot, p)
		if !strict && (cop == "lstat" || cop == "stat" || cop == "readlink") {
			if !in {
				outsideQueries++
				vxObserve("outside-query", cop)
			}
			return
		}
		if !in {
			vxObserve("escaping-call", cop)
		}
		vxAssert(in, id)
	}
	// inode numbers of everything that is not below /r
	outIno := []uint64{fs.root.ino}
	for _, e := range outside {
		if !(e.depth == 0 && e.name == "r") {
			outIno = append(outIno, e.in.ino)
		}
	}

	starts := []string{vxRoot, vxRoot + "/a", vxRoot + "/a/a", vxRoot + "/a/.."}
	var tc *Fcall
	switch opname {
	case "attach":
		tc = &Fcall{Type: Tattach, Fid: 1, Afid: NOFID, Unamenum: 1, Uname: "u1", Aname: vxSymAlpha("aname", L)}
	case "walk", "walk2":
		depth := vxChoose("depth", len(starts))
		k.addFid(1, starts[depth], QTDIR)
		names := []string{vxSymAlpha("wname", L)}
		if opname == "walk2" {
			names = append(names, vxSymAlpha("wname", L))
		}
		newfid := uint32(1 + vxChoose("newfid", 2))
		tc = &Fcall{Type: Twalk, Fid: 1, Newfid: newfid, Wname: names}
	case "create":
		depth := vxChoose("depth", len(starts))
		k.addFid(1, starts[depth], QTDIR)
		k.addFid(5, vxRoot+"/aa", 0)
		tc = &Fcall{Type: Tcreate, Fid: 1, Name: vxSymAlpha("name", L), Mode: OREAD}
		switch vxChoose("kind", 4) {
		case 0:
			tc.Perm = 0644
		case 1:
			tc.Perm = DMDIR | 0755
		case 2:
			tc.Perm = DMSYMLINK
			tc.Ext = "aa"
		case 3:
			tc.Perm = DMLINK
			tc.Ext = "5"
		}
	case "rename":
		// the object being renamed: a directory at depth 1 or 2, or a file at depth 1 or 3
		// ... or the exported root itself (a client holds a fid for it after every attach)
		objs := []string{vxRoot + "/a", vxRoot + "/a/a", vxRoot + "/aa", vxRoot + "/a/a/a", vxRoot + "/a/../aa", vxRoot}
		o := vxChoose("object", len(objs))
		qt := uint8(0)
		if o < 2 || o == 5 {
			qt = QTDIR
		}
		k.addFid(1, objs[o], qt)
		var d Dir
		d.Mode = 0xFFFFFFFF
		d.Length = 0xFFFFFFFFFFFFFFFF
		d.Mtime, d.Atime = 0xFFFFFFFF, 0xFFFFFFFF
		d.Uidnum, d.Gidnum = NOUID, NOUID
		d.Name = vxSymAlpha("newname", L)
		tc = &Fcall{Type: Twstat, Fid: 1, Dir: d}
	}
	vxObserve("op", opname)
	rc := k.run(tc, 512)
	if rc == nil {
		return
	}
	// the reply reveals nothing about objects outside the root
	var qids []Qid
	switch rc.Type {
	case Rattach, Rcreate:
		qids = append(qids, rc.Qid)
	case Rwalk:
		qids = rc.Wqid
	}
	for _, q := range qids {
		for _, ino := range outIno {
			vxAssert(q.Path != ino, opname+"-returns-qid-of-object-outside-root")
		}
	}
	vxObserve("outside-queries", outsideQueries)
	// every fid still designates something inside the root
	for _, no := range []uint32{1, 2, 5} {
		f := k.conn.fidpool[no]
		if f == nil {
			continue
		}
		if uf, ok := f.Aux.(*ufsFid); ok {
			vxAssert(refInside(vxRoot, uf.path), opname+"-leaves-fid-inside-root")
		}
	}
	// nothing outside the root has changed (the canaries)
	vxAssert(vxSameTree(outside, vxOutsideView(fs)), opname+"-leaves-canaries-alone")
	if rc.Type == Rerror {
		vxReach("refused")
	} else {
		vxReach("served")
	}
}

// vxOutsideView: everything in the model tree that is not below the exported root (top-level names, and the
// subtrees of all top-level entries other than "r").
func vxOutsideView(fs *vxFS) []vxSnapEnt {
	var out []vxSnapEnt
	for _, d := range fs.root.ents {
		out = append(out, vxSnapEnt{depth: 0, name: d.name, in: d.in, kind: d.in.kind, mode: d.in.mode, size: d.in.size,
			mtime: d.in.mtime, uid: d.in.uid, gid: d.in.gid, target: d.in.target, exists: d.exists})
		if d.name != "r" && d.in.kind == vxKDir {
			out = fs.snapInto(out, d.in, 1)
		}
	}
	return out
}
