package go9p

// H01.bigwalk: the element counts of Rwalk and Twalk are 16-bit fields whose products with the element size do not
// fit 16 bits. A walk message with n elements (n chosen at and around the values where n*13 resp. n*2 crosses a power
// of two: 5041/5042 qids = 65 533/65 546 bytes, 32 767/32 768 empty names) round-trips like any other: the decoder
// returns the same count and the same elements. Element values are a concrete function of the index except for one
// symbolic qid / a symbolic tag.
func vxH01BigWalk(rwalk bool, n int) {
	tag := vxU16("tag")
	var fc *Fcall
	var need int
	q0 := vxSymQid("q")
	if rwalk {
		qs := make([]Qid, n)
		for i := range qs {
			qs[i] = Qid{Type: uint8(i), Version: uint32(i * 7), Path: uint64(i) * 0x0101}
		}
		if n > 0 {
			qs[n/2] = q0
		}
		need = 7 + 2 + 13*n
		fc = NewFcall(uint32(need + 8))
		vxAssert(PackRwalk(fc, qs) == nil, "pack-ok")
	} else {
		names := make([]string, n)
		need = 7 + 4 + 4 + 2 + 2*n
		fc = NewFcall(uint32(need + 8))
		vxAssert(PackTwalk(fc, 1, 2, names) == nil, "pack-ok")
	}
	SetTag(fc, tag)
	vxAssert(len(fc.Pkt) == need, "pkt-len==layout-size")
	if len(fc.Pkt) != need {
		return
	}
	g, sz, err := Unpack(fc.Pkt, false)
	vxAssert(err == nil, "unpack-ok")
	if err != nil {
		return
	}
	vxAssert(sz == need && g.Tag == tag, "decoded-header")
	if rwalk {
		vxAssert(len(g.Wqid) == n, "decoded-count")
		if len(g.Wqid) == n && n > 0 {
			vxAssert(refQidEq(g.Wqid[n/2], q0), "decoded-element")
			vxAssert(g.Wqid[n-1].Path == uint64(n-1)*0x0101, "decoded-last-element")
		}
	} else {
		vxAssert(len(g.Wname) == n, "decoded-count")
	}
	vxReach("done")
}
