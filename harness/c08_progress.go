package go9p

// C08 — independent requests progress independently; requests sharing a tag run FIFO.
//
//   H08.spawn  one receive step on a real connection (Srv.NewConn on a scripted transport): a request whose tag is
//              not pending is started in a goroutine of its own whatever else is pending, Tversion is handled inline,
//              a request whose tag is pending is queued and not started.
//   H08.nolock every path of Process(), every request type: no mutex is held at the entry of any call into the
//              implementation (SrvReqOps, AuthOps, FlushOp, FidDestroy).
//   H08.block  one request parked forever inside the implementation: in every quiescent state of every schedule the
//              replies to all other requests (same connection, other connection) are on the wire.
//   H08.fifo   requests sharing a tag: entered into the implementation in arrival order, one at a time, answered in
//              that order, in every schedule.

import "net"

func vxH08Conn(kit *vxKit, nc *vxNetConn) *Conn {
	for c := range kit.srv.conns {
		if c.conn == net.Conn(nc) {
			return c
		}
	}
	return nil
}

// prologue: Tversion, Tattach fid 0, Topen fid 0 (ORDWR) — each answered before the next is sent
func vxH08Prologue(kit *vxKit, nc *vxNetConn) bool {
	kit.ops.outcome = vxOutOK
	kit.ops.qid = Qid{}
	nc.in <- refEncode(Tversion, NOTAG, []refItem{refU32(8192), refS("9P2000.u")}, true)
	vxQuiesce()
	nc.in <- refEncode(Tattach, 1, []refItem{refU32(0), refU32(NOFID), refS("u0"), refS(""), refU32(0)}, true)
	vxQuiesce()
	nc.in <- refEncode(Topen, 1, []refItem{refU32(0), refU8(ORDWR)}, true)
	vxQuiesce()
	pro, ok := vxFrames(nc.wire)
	good := ok && len(pro) == 3 && pro[0].typ == Rversion && pro[1].typ == Rattach && pro[2].typ == Ropen
	vxAssert(good, "prologue-answered")
	return good
}

func vxH08Read(tag uint16, off uint64) []byte {
	return refEncode(Tread, tag, []refItem{refU32(0), refU64(off), refU32(2)}, true)
}

func vxH08Write(tag uint16, off uint64) []byte {
	return refEncode(Twrite, tag, []refItem{refU32(0), refU64(off), {kind: rkData, cnt: 1, b: []byte{7}}}, true)
}

// replies with a given tag among frames
func vxH08Count(fs []vxFrame, tag uint16) int {
	n := 0
	for _, f := range fs {
		if f.tag == tag {
			n++
		}
	}
	return n
}

const vxH08BlockedOff = 0x7777

// ---------------------------------------------------------------------------------------------------------------
// H08.spawn
func vxH08Spawn(maxpend int) {
	kit := vxNewKit(false, false, 8192, true)
	kit.srv.Maxpend = maxpend
	kit.ops.echo = true
	gate := make(chan bool)
	kit.ops.hook = func(op string, req *SrvReq) {
		if (op == "read" || op == "write") && req.Tc.Offset == vxH08BlockedOff {
			<-gate
		}
	}
	nc := vxNewNetConn()
	kit.srv.NewConn(nc)
	if !vxH08Prologue(kit, nc) {
		return
	}
	conn := vxH08Conn(kit, nc)
	vxAssert(conn != nil, "connection-registered")
	if conn == nil {
		return
	}
	ops := kit.ops
	tagA := vxU16("tagA")
	tagB := vxU16("tagB")
	vxAssume(vxAll(tagA != NOTAG, tagB != NOTAG, tagA != tagB))

	scenario := vxChoose("scenario", 4)
	vxObserve("scenario", scenario)
	pendingA := scenario != 0
	if pendingA {
		// A is received, started, and parks inside the implementation
		nc.in <- vxH08Read(tagA, vxH08BlockedOff)
		vxQuiesce()
		vxAssert(len(ops.calls) > 0 && ops.calls[len(ops.calls)-1].tag == tagA, "first-request-entered-the-implementation")
	}
	g0 := vxGoroutines()
	c0 := len(ops.calls)
	mark := len(nc.wire)

	switch scenario {
	case 0, 1:
		// a request whose tag is not pending: started at once, in a goroutine of its own
		off := vxU64("offset")
		vxAssume(off != vxH08BlockedOff)
		if vxBool("write") {
			nc.in <- vxH08Write(tagB, off)
		} else {
			nc.in <- vxH08Read(tagB, off)
		}
		vxQuiesce()
		vxAssert(len(ops.calls) == c0+1, "request-with-free-tag-is-started-whatever-else-is-pending")
		if len(ops.calls) == c0+1 {
			vxAssert(ops.calls[c0].tag == tagB, "started-request-is-the-new-one")
		}
		if vxSymbolic() {
			vxAssert(vxGoroutines() == g0+1, "request-with-free-tag-gets-its-own-goroutine")
		}
		fs, ok := vxFrames(nc.wire[mark:])
		vxAssert(ok && len(fs) == 1 && fs[0].tag == tagB, "request-with-free-tag-is-answered-while-the-other-is-blocked")
		vxReach("free-tag")
	case 2:
		// a request whose tag is pending: queued behind the older one, not started
		nc.in <- vxH08Read(tagA, 0x0202)
		vxQuiesce()
		vxAssert(len(ops.calls) == c0, "request-with-pending-tag-is-not-started")
		if vxSymbolic() {
			vxAssert(vxGoroutines() == g0, "request-with-pending-tag-gets-no-goroutine-yet")
		}
		vxAssert(len(nc.wire) == mark, "nothing-answered-while-the-head-of-the-tag-group-is-blocked")
		r := conn.reqs[tagA]
		queued := r != nil && r.next != nil && r.next.next == nil && r.Tc.Offset == 0x0202 && r.next.Tc.Offset == vxH08BlockedOff
		vxAssert(queued, "request-with-pending-tag-is-queued-behind-the-older-one")
		// release the head: the queued request is started now, and both are answered in arrival order
		gate <- true
		vxQuiesce()
		vxAssert(len(ops.calls) == c0+1, "queued-request-is-started-after-the-older-one-was-answered")
		fs, ok := vxFrames(nc.wire[mark:])
		good := ok && len(fs) == 2 && fs[0].tag == tagA && fs[1].tag == tagA
		vxAssert(good, "both-requests-of-the-tag-answered")
		if good {
			a := refEncode(Rread, tagA, []refItem{{kind: rkData, cnt: 2, b: []byte{0x77, 0x77}}}, true)
			b := refEncode(Rread, tagA, []refItem{{kind: rkData, cnt: 2, b: []byte{0x02, 0x02}}}, true)
			vxAssert(vxAll(refBytesEq(fs[0].raw, a), refBytesEq(fs[1].raw, b)), "tag-group-answered-in-arrival-order")
		}
		vxReach("pending-tag")
	case 3:
		// Tversion is handled synchronously by the receiver
		nc.in <- refEncode(Tversion, NOTAG, []refItem{refU32(4096), refS("9P2000.u")}, true)
		vxQuiesce()
		if vxSymbolic() {
			vxAssert(vxGoroutines() == g0, "tversion-is-handled-inline")
		}
		vxAssert(len(ops.calls) == c0, "tversion-does-not-reach-the-implementation")
		fs, ok := vxFrames(nc.wire[mark:])
		vxAssert(ok && len(fs) == 1 && fs[0].typ == Rversion && fs[0].tag == NOTAG, "tversion-answered-while-another-request-is-blocked")
		vxReach("tversion")
	}
}

// ---------------------------------------------------------------------------------------------------------------
// H08.nolock
func vxH08NoLock(typ int, withAuth bool, withFlush bool) {
	dotu := vxBool("dotu")
	k := vxNewKit(withAuth, withFlush, 8192, dotu)
	conn := k.conn
	ops := k.ops
	ops.data = []byte{1, 2}
	ftype := vxU8("ftype")
	if !withAuth {
		vxAssume(ftype&QTAUTH == 0) // authentication fids exist only with AuthOps
	}
	fid := k.addFid(conn, 1, k.users.u1, ftype)
	fid.opened = vxBool("opened")
	fid.Omode = vxU8("omode")
	k.addFid(conn, 2, k.users.u0, QTDIR)
	qt := vxU8("qidtype")
	vxAssume(qt&QTAUTH == 0)
	ops.qid.Type = qt

	tc := &Fcall{Type: uint8(typ), Tag: 7, Fid: NOFID, Afid: NOFID, Newfid: NOFID}
	fidOf := func() uint32 { return []uint32{1, 2, 9}[vxChoose("fid", 3)] } // arbitrary state / directory / unknown
	user := func() {
		switch vxChoose("user", 3) {
		case 0:
			tc.Uname, tc.Unamenum = "u0", 0
		case 1:
			tc.Uname, tc.Unamenum = "u1", NOUID
		case 2:
			tc.Uname, tc.Unamenum = "nobody", 7
		}
	}
	outcomes := 4 // ok, error, no answer, two answers
	switch uint8(typ) {
	case Tversion:
		tc.Tag = NOTAG
		tc.Msize = vxU32("msize")
		tc.Version = []string{"9P2000", "9P2000.u"}[vxChoose("version", 2)]
		if vxBool("otherpending") {
			k.newReq(conn, &Fcall{Type: Tstat, Tag: 5, Fid: 1}, 512)
		}
		outcomes = 1
	case Tauth:
		tc.Afid = []uint32{3, 2, NOFID}[vxChoose("afid", 3)]
		user()
	case Tattach:
		tc.Fid = []uint32{3, 2, NOFID}[vxChoose("fid", 3)]
		tc.Afid = []uint32{NOFID, 1, 9}[vxChoose("afid", 3)]
		user()
	case Tflush:
		tc.Oldtag = 5
		ops.flushCall = vxBool("flushcall")
		outcomes = 1
		st := vxChoose("target", 5)
		if st > 0 {
			var t *SrvReq
			if st == 4 {
				// a walk in progress that holds the only reference of its new fid
				t = k.newReq(conn, &Fcall{Type: Twalk, Tag: 5, Fid: 2, Newfid: 4}, 512)
				t.Fid = conn.FidGet(2)
				t.Newfid = conn.FidNew(4)
				t.status = reqWork
			} else {
				t = k.newReq(conn, &Fcall{Type: Tstat, Tag: 5, Fid: 1}, 512)
				t.Fid = conn.FidGet(1)
				t.status = []reqStatus{0, 0, reqWork, reqSaved}[st]
			}
			if ops.inprogress != nil && st >= 2 {
				ops.inprogress[t] = true
			}
		}
	case Twalk:
		tc.Fid = fidOf()
		tc.Newfid = []uint32{1, 3, 2, NOFID}[vxChoose("newfid", 4)]
		tc.Wname = []string{"a", "b"}[:vxChoose("nwname", 3)]
		outcomes = 5
	case Topen:
		tc.Fid = fidOf()
		tc.Mode = vxU8("mode")
	case Tcreate:
		tc.Fid = fidOf()
		tc.Perm = vxU32("perm")
		tc.Mode = vxU8("mode")
		tc.Name = "n"
	case Tread:
		tc.Fid = fidOf()
		tc.Offset = vxU64("offset")
		tc.Count = vxU32("count")
		if withAuth {
			// reads of authentication fids slice the reply buffer by count: few shapes, free values
			vxAssume(vxAny(tc.Count <= 3, tc.Count > 8192))
		}
	case Twrite:
		tc.Fid = fidOf()
		tc.Offset = vxU64("offset")
		tc.Data = vxBytes("data", 2)
		tc.Count = 2
	default: // Tclunk, Tremove, Tstat, Twstat
		tc.Fid = fidOf()
	}
	switch vxChoose("outcome", outcomes) {
	case 0:
		ops.outcome = vxOutOK
	case 1:
		ops.outcome = vxOutErr
	case 2:
		ops.outcome = vxOutNone
	case 3:
		ops.outcome = vxOutTwice
	case 4:
		ops.outcome = vxOutPartial
		ops.partialN = 0
	}
	vxObserve("type", typ)
	req := k.newReq(conn, tc, 512)
	req.Process()

	if vxSymbolic() {
		for _, c := range ops.calls {
			vxAssertE(c.locks == 0, "no-lock-held-at-the-entry-of-a-request-operation")
		}
		for _, c := range ops.authCalls {
			vxAssertE(c.locks == 0, "no-lock-held-at-the-entry-of-an-authentication-operation")
		}
		// FidDestroy and FlushOp count their violations themselves
		vxAssertE(ops.lockViol == 0, "no-lock-held-at-the-entry-of-any-implementation-call")
	}
	if len(ops.calls) > 0 {
		vxReach("forwarded")
	}
	if len(ops.authCalls) > 0 {
		vxReach("auth")
	}
	if len(ops.flushed) > 0 {
		vxReach("flushop")
	}
	if len(ops.destroyed) > 0 {
		vxReach("destroy")
	}
	vxReach("done")
}

// twin of H08.nolock: the detection itself works — a call made with a library lock held is counted
func vxH08NoLockTwin() {
	k := vxNewKit(false, true, 8192, true)
	conn := k.conn
	fid := k.addFid(conn, 1, k.users.u0, 0)
	req := k.newReq(conn, &Fcall{Type: Tstat, Tag: 7, Fid: 1, Afid: NOFID, Newfid: NOFID}, 512)
	req.Fid = fid
	conn.Lock()
	k.ops.note("stat", req)
	k.ops.FidDestroy(fid)
	vxOpsFlush{k.ops}.Flush(req)
	conn.Unlock()
	if vxSymbolic() {
		vxAssert(k.ops.lockViol == 3 && k.ops.calls[0].locks == 1, "held-lock-is-detected")
	}
	vxReach("twin")
}

// ---------------------------------------------------------------------------------------------------------------
// H08.block
func vxH08Block(n int, maxpend int, yield bool, oneSegment bool, staged bool) {
	kit := vxNewKit(false, false, 8192, true)
	kit.srv.Maxpend = maxpend
	kit.ops.echo = true
	gate := make(chan bool)
	kit.ops.hook = func(op string, req *SrvReq) {
		if op != "read" && op != "write" {
			return
		}
		if yield {
			vxYield()
		}
		if req.Tc.Offset == vxH08BlockedOff {
			<-gate // forever
		}
	}
	nc1, nc2 := vxNewNetConn(), vxNewNetConn()
	kit.srv.NewConn(nc1)
	if !vxH08Prologue(kit, nc1) {
		return
	}
	kit.srv.NewConn(nc2)
	if !vxH08Prologue(kit, nc2) {
		return
	}
	mark1, mark2 := len(nc1.wire), len(nc2.wire)
	c0 := len(kit.ops.calls)

	// staged: the request that blocks arrives first and is parked inside the implementation before the others are
	// issued; otherwise it arrives among them, at any position
	blocked := 0
	if !staged {
		blocked = vxChoose("blocked", n)
	}
	vxObserve("blocked", blocked)
	tags := make([]uint16, n)
	var stream []byte
	for i := 0; i < n; i++ {
		tags[i] = vxU16("tag")
		if i != blocked {
			// the blocked request may carry any 16-bit tag, including the value NOTAG: only Tversion is excepted
			vxAssume(tags[i] != NOTAG)
		}
		for j := 0; j < i; j++ {
			vxAssume(tags[i] != tags[j])
		}
		off := uint64(i+1) * 0x0101
		if i == blocked {
			off = vxH08BlockedOff
		}
		// the kind of request is immaterial here (and would only multiply the schedule tree): odd ones write
		var pkt []byte
		if i%2 == 1 {
			pkt = vxH08Write(tags[i], off)
		} else {
			pkt = vxH08Read(tags[i], off)
		}
		if staged && i == 0 {
			nc1.in <- pkt
			vxQuiesce()
			vxAssert(len(kit.ops.calls) == c0+1, "first-request-parked-inside-the-implementation")
			continue
		}
		if oneSegment {
			stream = append(stream, pkt...)
		} else {
			nc1.in <- pkt
		}
	}
	if oneSegment {
		nc1.in <- stream
	}
	// tags are private to a connection: the other connection's request may use any tag, also the blocked one
	tagD := vxU16("tagD")
	vxAssume(tagD != NOTAG)
	nc2.in <- vxH08Read(tagD, 0x0909)

	vxQuiesce()

	fs1, ok1 := vxFrames(nc1.wire[mark1:])
	fs2, ok2 := vxFrames(nc2.wire[mark2:])
	vxAssert(ok1 && ok2, "reply-streams-well-formed")
	if !ok1 || !ok2 {
		return
	}
	for i := 0; i < n; i++ {
		if i == blocked {
			vxAssert(vxH08Count(fs1, tags[i]) == 0, "blocked-request-is-not-answered")
			continue
		}
		vxAssert(vxH08Count(fs1, tags[i]) == 1, "request-on-the-same-connection-answered-while-another-is-blocked")
	}
	vxAssert(len(fs2) == 1 && fs2[0].tag == tagD && fs2[0].typ == Rread, "request-on-another-connection-answered-while-one-is-blocked")
	vxAssert(len(kit.ops.calls) == c0+n+1, "every-request-reached-the-implementation")
	vxReach("done")
}

// ---------------------------------------------------------------------------------------------------------------
// H08.fifo
func vxH08Fifo(g int, maxpend int, yield bool, oneSegment bool) {
	kit := vxNewKit(false, false, 8192, true)
	kit.srv.Maxpend = maxpend
	kit.ops.echo = true
	nc := vxNewNetConn()
	kit.srv.NewConn(nc)
	if !vxH08Prologue(kit, nc) {
		return
	}
	mark := len(nc.wire)
	tagG := vxU16("tagG")
	tagO := vxU16("tagO")
	vxAssume(vxAll(tagG != NOTAG, tagO != NOTAG, tagG != tagO))

	// members are told apart by their offsets: member i reads at (i+1)*0x0101, the outsider at 0x0909
	entered := make([]*SrvReq, 0, g)
	kit.ops.hook = func(op string, req *SrvReq) {
		if op != "read" {
			return
		}
		if req.Tc.Offset != 0x0909 {
			i := int(req.Tc.Offset/0x0101) - 1
			vxAssert(i == len(entered), "tag-group-enters-the-implementation-in-arrival-order")
			if i > 0 && i == len(entered) {
				prev := entered[i-1]
				vxAssert(prev.status&reqResponded != 0, "next-of-the-tag-group-starts-only-after-the-previous-was-answered")
			}
			entered = append(entered, req)
		}
		if yield {
			vxYield() // the implementation is slow: anything may happen before it answers
		}
	}

	pos := vxChoose("otherpos", g+1)
	vxObserve("otherpos", pos)
	var stream []byte
	put := func(pkt []byte) {
		if oneSegment {
			stream = append(stream, pkt...)
		} else {
			nc.in <- pkt
		}
	}
	for i := 0; i <= g; i++ {
		if i == pos {
			put(vxH08Read(tagO, 0x0909))
		}
		if i < g {
			put(vxH08Read(tagG, uint64(i+1)*0x0101))
		}
	}
	if oneSegment {
		nc.in <- stream
	}
	vxQuiesce()

	fs, ok := vxFrames(nc.wire[mark:])
	vxAssert(ok && len(fs) == g+1, "every-request-answered-once")
	if !ok || len(fs) != g+1 {
		return
	}
	vxAssert(len(entered) == g, "every-member-of-the-tag-group-reached-the-implementation")
	k := 0
	for _, f := range fs {
		if f.tag == tagO {
			want := refEncode(Rread, tagO, []refItem{{kind: rkData, cnt: 2, b: []byte{0x09, 0x09}}}, true)
			vxAssert(refBytesEq(f.raw, want), "outsider-answered")
			continue
		}
		vxAssert(f.tag == tagG, "no-reply-for-a-tag-without-request")
		b := byte(k + 1)
		want := refEncode(Rread, tagG, []refItem{{kind: rkData, cnt: 2, b: []byte{b, b}}}, true)
		vxAssert(refBytesEq(f.raw, want), "tag-group-answered-in-arrival-order")
		k++
	}
	vxAssert(k == g, "every-member-of-the-tag-group-answered")
	vxReach("done")
}

// H08.fifo-late: three requests under one tag, the third arriving after the first was answered while the second
// is still executing in the implementation: it must wait for the second (one at a time, arrival order).
func vxH08FifoLate(maxpend int) {
	kit := vxNewKit(false, false, 8192, true)
	kit.srv.Maxpend = maxpend
	kit.ops.echo = true
	nc := vxNewNetConn()
	kit.srv.NewConn(nc)
	if !vxH08Prologue(kit, nc) {
		return
	}
	mark := len(nc.wire)
	tagG := vxU16("tagG")
	vxAssume(tagG != NOTAG)
	hold := make(chan bool, 1)
	entered := 0
	running := 0
	kit.ops.hook = func(op string, req *SrvReq) {
		if op != "read" {
			return
		}
		entered++
		running++
		vxAssert(running == 1, "tag-group-members-execute-one-at-a-time")
		if req.Tc.Offset == 0x0202 {
			<-hold // the second member is slow
		}
		running--
	}
	nc.in <- append(vxH08Read(tagG, 0x0101), vxH08Read(tagG, 0x0202)...)
	vxQuiesce()
	fs, ok := vxFrames(nc.wire[mark:])
	vxAssert(ok && len(fs) == 1, "first-member-answered-second-executing")
	vxAssert(entered == 2, "second-member-started-after-the-first")
	nc.in <- vxH08Read(tagG, 0x0303)
	vxQuiesce()
	vxAssert(entered == 2, "late-member-waits-for-the-executing-one")
	fs, ok = vxFrames(nc.wire[mark:])
	vxAssert(ok && len(fs) == 1, "late-member-not-answered-before-its-predecessor")
	hold <- true
	vxQuiesce()
	fs, ok = vxFrames(nc.wire[mark:])
	vxAssert(ok && len(fs) == 3, "every-member-answered")
	if ok && len(fs) == 3 {
		for i, f := range fs {
			b := byte(i + 1)
			want := refEncode(Rread, tagG, []refItem{{kind: rkData, cnt: 2, b: []byte{b, b}}}, true)
			vxAssert(refBytesEq(f.raw, want), "tag-group-answered-in-arrival-order")
		}
	}
	vxAssert(entered == 3, "every-member-reached-the-implementation")
	vxReach("done")
}

// H08.dispatcher: an implementation that answers from one dispatcher goroutine. Two requests share a tag; the
// second is slow inside the implementation. The dispatcher, after answering the first, must stay free to answer
// an unrelated request: the framework may not run the queued member on the goroutine that answered.
func vxH08Dispatcher(maxpend int) {
	kit := vxNewKit(false, false, 8192, true)
	kit.srv.Maxpend = maxpend
	kit.ops.echo = true
	nc := vxNewNetConn()
	kit.srv.NewConn(nc)
	if !vxH08Prologue(kit, nc) {
		return
	}
	mark := len(nc.wire)
	tagG := vxU16("tagG")
	tagO := vxU16("tagO")
	vxAssume(vxAll(tagG != NOTAG, tagO != NOTAG, tagG != tagO))
	hold := make(chan bool, 1)
	work := make(chan *SrvReq, 8)
	kit.ops.hook = func(op string, req *SrvReq) {
		if op == "read" && req.Tc.Offset == 0x0202 {
			<-hold // the second member of the group is slow inside the implementation
		}
	}
	kit.ops.outcome = vxOutNone
	kit.ops.savedCh = work
	// the dispatcher: answers whatever the workers hand over, one at a time
	stop := make(chan bool, 1)
	go func() {
		for {
			select {
			case r := <-work:
				r.RespondRread([]byte{byte(r.Tc.Offset), byte(r.Tc.Offset >> 8)})
			case <-stop:
				return
			}
		}
	}()
	nc.in <- append(vxH08Read(tagG, 0x0101), vxH08Read(tagG, 0x0202)...)
	vxQuiesce()
	nc.in <- vxH08Read(tagO, 0x0909)
	vxQuiesce()
	fs, ok := vxFrames(nc.wire[mark:])
	vxAssert(ok, "reply-stream-well-formed")
	vxAssert(vxH08Count(fs, tagO) == 1, "unrelated-request-answered-while-a-tag-group-member-is-slow")
	hold <- true
	vxQuiesce()
	fs, ok = vxFrames(nc.wire[mark:])
	vxAssert(ok && len(fs) == 3, "every-request-answered")
	stop <- true
	vxReach("done")
}
