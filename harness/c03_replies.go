package go9p

// C03 — exactly one correctly tagged reply per request under any concurrency.

// H03.respond: any status bits, k answers: at most one reply is queued, exactly one unless flushed/responded before.
func vxH03Respond(k int) {
	kit := vxNewKit(false, false, 8192, vxBool("dotu"))
	conn := kit.conn
	fid := kit.addFid(conn, 1, kit.users.u0, 0)
	tc := &Fcall{Type: Tstat, Tag: vxU16("tag"), Fid: 1}
	req := kit.newReq(conn, tc, 512)
	req.Fid = fid
	fid.IncRef()
	st := vxU8("status")
	vxAssume(st < 16)
	// flushed requests are unregistered by whoever flushed them; responded ones were unregistered by Respond
	req.status = reqStatus(st)
	already := st&uint8(reqResponded) != 0
	flushed := st&uint8(reqFlush) != 0
	var first []byte // the reply as the first answer produced it
	for i := 0; i < k; i++ {
		switch vxChoose("answer", 3) {
		case 0:
			req.RespondRstat(kit.ops.dir)
		case 1:
			req.RespondError(&Error{"e", 7})
		case 2:
			req.RespondRclunk()
		}
		if i == 0 {
			first = append([]byte{}, req.Rc.Pkt...)
		}
	}
	rs := kit.replies(conn)
	want := 1
	if already || flushed {
		want = 0
	}
	vxAssert(len(rs) == want, "replies-queued")
	if want == 1 && len(rs) == 1 {
		vxAssert(rs[0] == req, "queued-reply-is-this-request")
		// the reply now belongs to the sender: further answers by the implementation do not rewrite it
		vxAssert(refBytesEq(rs[0].Rc.Pkt, first), "queued-reply-is-the-first-answer-unchanged")
	}
	_, still := conn.reqs[tc.Tag]
	if !already {
		vxAssert(!still, "answered-request-unregistered")
	}
	vxReach("done")
}

// H03.e2e: real NewConn on a scripted transport, n concurrent requests, every completion order.
func vxH03E2E(n int, maxpend int, outcome int, oneSegment bool) {
	kit := vxNewKit(false, false, 8192, true)
	kit.srv.Maxpend = maxpend
	kit.ops.echo = true
	kit.ops.hook = func(op string, req *SrvReq) { vxYield() }
	nc := vxNewNetConn()
	kit.srv.NewConn(nc)
	nc.in <- refEncode(Tversion, NOTAG, []refItem{refU32(8192), refS("9P2000.u")}, true)
	vxQuiesce()
	nc.in <- refEncode(Tattach, 1, []refItem{refU32(0), refU32(NOFID), refS("u0"), refS(""), refU32(0)}, true)
	vxQuiesce()
	nc.in <- refEncode(Topen, 1, []refItem{refU32(0), refU8(ORDWR)}, true)
	vxQuiesce()
	pro, ok := vxFrames(nc.wire)
	vxAssert(ok && len(pro) == 3, "prologue-three-replies")
	if !ok || len(pro) != 3 {
		return
	}
	vxAssert(vxAll(pro[0].typ == Rversion, pro[0].tag == NOTAG, pro[1].typ == Rattach, pro[1].tag == 1, pro[2].typ == Ropen, pro[2].tag == 1), "prologue-replies")
	mark := len(nc.wire)
	kit.ops.calls = nil
	kit.ops.outcome = outcome

	tags := make([]uint16, n)
	offs := make([]uint64, n)
	kinds := make([]int, n)
	var stream []byte
	for i := 0; i < n; i++ {
		tags[i] = vxU16("tag")
		vxAssume(tags[i] != NOTAG)
		for j := 0; j < i; j++ {
			vxAssume(tags[i] != tags[j])
		}
		offs[i] = vxU64("offset")
		kinds[i] = vxChoose("kind", 2)
		var pkt []byte
		if kinds[i] == 0 {
			pkt = refEncode(Tread, tags[i], []refItem{refU32(0), refU64(offs[i]), refU32(2)}, true)
		} else {
			pkt = refEncode(Twrite, tags[i], []refItem{refU32(0), refU64(offs[i]), {kind: rkData, cnt: 1, b: []byte{7}}}, true)
		}
		if oneSegment {
			stream = append(stream, pkt...)
		} else {
			nc.in <- pkt
		}
	}
	if oneSegment {
		nc.in <- stream
	}
	vxQuiesce()
	fs, ok := vxFrames(nc.wire[mark:])
	vxAssert(ok, "reply-stream-well-formed")
	if !ok {
		return
	}
	vxAssert(len(fs) == n, "one-reply-per-request-in-total")
	for i := 0; i < n; i++ {
		cnt := 0
		for _, f := range fs {
			if f.tag != tags[i] {
				continue
			}
			cnt++
			var want []byte
			switch {
			case outcome == vxOutErr:
				want = refEncode(Rerror, tags[i], []refItem{refS("ops error"), refU32(42)}, true)
			case kinds[i] == 0:
				want = refEncode(Rread, tags[i], []refItem{{kind: rkData, cnt: 2, b: []byte{byte(offs[i]), byte(offs[i] >> 8)}}}, true)
			default:
				want = refEncode(Rwrite, tags[i], []refItem{refU32(uint32(offs[i]) ^ 0x5a5a)}, true)
			}
			vxAssert(refBytesEq(f.raw, want), "reply-content-is-what-the-implementation-produced-for-this-request")
		}
		vxAssert(cnt == 1, "exactly-one-reply-for-this-tag")
	}
	for _, f := range fs {
		known := false
		for i := 0; i < n; i++ {
			if f.tag == tags[i] {
				known = true
			}
		}
		vxAssert(known, "no-reply-for-a-tag-without-request")
	}
	vxAssert(len(kit.ops.calls) == n, "each-request-forwarded-once")
	vxAssert(len(conn0reqs(kit, nc)) == 0, "no-request-left-registered")
	vxReach("done")
}

func conn0reqs(kit *vxKit, nc *vxNetConn) map[uint16]*SrvReq {
	for c := range kit.srv.conns {
		return c.reqs
	}
	return nil
}

// H03.burst: more requests outstanding at once than the connection keeps spare reply buffers for (64): all of them
// are held inside the implementation, then released; every one is answered.
func vxH03Burst(n int) {
	kit := vxNewKit(false, false, 8192, true)
	kit.ops.echo = true
	nc := vxNewNetConn()
	kit.srv.NewConn(nc)
	nc.in <- refEncode(Tversion, NOTAG, []refItem{refU32(8192), refS("9P2000.u")}, true)
	vxQuiesce()
	nc.in <- refEncode(Tattach, 1, []refItem{refU32(0), refU32(NOFID), refS("u0"), refS(""), refU32(0)}, true)
	vxQuiesce()
	nc.in <- refEncode(Topen, 1, []refItem{refU32(0), refU8(ORDWR)}, true)
	vxQuiesce()
	mark := len(nc.wire)
	kit.ops.gate = map[uint16]chan bool{}
	var stream []byte
	for i := 0; i < n; i++ {
		tag := uint16(100 + i)
		kit.ops.gate[tag] = make(chan bool, 1)
		stream = append(stream, refEncode(Tread, tag, []refItem{refU32(0), refU64(uint64(i)), refU32(2)}, true)...)
	}
	nc.in <- stream
	vxQuiesce()
	fs, ok := vxFrames(nc.wire[mark:])
	vxAssert(ok && len(fs) == 0, "held-requests-not-answered-yet")
	for i := 0; i < n; i++ {
		kit.ops.gate[uint16(100+i)] <- true
	}
	vxQuiesce()
	fs, ok = vxFrames(nc.wire[mark:])
	vxAssert(ok, "reply-stream-well-formed")
	vxAssert(len(fs) == n, "every-request-of-the-burst-answered")
	seen := map[uint16]bool{}
	for _, f := range fs {
		vxAssert(f.typ == Rread && f.tag >= 100 && int(f.tag) < 100+n && !seen[f.tag], "one-Rread-per-tag")
		seen[f.tag] = true
	}
	// and the connection goes on
	nc.in <- refEncode(Tread, 7, []refItem{refU32(0), refU64(0), refU32(2)}, true)
	vxQuiesce()
	fs, _ = vxFrames(nc.wire[mark:])
	vxAssert(len(fs) == n+1, "connection-serves-on-after-the-burst")
	vxReach("done")
}
