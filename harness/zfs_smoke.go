package go9p

func vxHFsSmoke(dotu bool) {
	k := vxNewUfsKit(dotu, 8192)
	root := k.rootDir()
	d := k.fs.addDir(root, "d", 0755)
	k.fs.addFile(d, "f", 0644, vxBytes("content", 3))
	rc := k.run(&Fcall{Type: Tattach, Fid: 1, Afid: NOFID, Unamenum: 1, Uname: "u1", Aname: ""}, 256)
	vxAssert(rc != nil && rc.Type == Rattach, "attach-ok")
	rc = k.run(&Fcall{Type: Twalk, Fid: 1, Newfid: 2, Wname: []string{"d", "f"}}, 256)
	vxAssert(rc != nil && rc.Type == Rwalk && len(rc.Wqid) == 2, "walk-ok")
	rc = k.run(&Fcall{Type: Tstat, Fid: 2}, 256)
	vxAssert(rc != nil && rc.Type == Rstat, "stat-ok")
	vxAssert(rc.Dir.Name == "f", "stat-name")
	vxAssert(rc.Dir.Length == 3, "stat-len")
	rc = k.run(&Fcall{Type: Topen, Fid: 2, Mode: OREAD}, 256)
	vxAssert(rc != nil && rc.Type == Ropen, "open-ok")
	rc = k.run(&Fcall{Type: Tread, Fid: 2, Offset: 1, Count: 10}, 256)
	vxAssert(rc != nil && rc.Type == Rread && rc.Count == 2, "read-ok")
	vxObserve("ncalls", len(k.fs.log))
	vxReach("end")
}
