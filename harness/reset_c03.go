package go9p

// H03.reset (C03, C08): a Tversion in mid-session aborts what is outstanding; afterwards every tag is free again. A
// request is held inside the implementation and further requests wait behind it under the same tag when the
// Tversion arrives; the held request then returns. A new session (attach) follows, and requests that reuse the old
// tags are answered, exactly once each, in order.
func vxH03Reset(waiting int, late bool) {
	kit := vxNewKit(false, false, 8192, true)
	kit.ops.echo = true
	nc := vxNewNetConn()
	kit.srv.NewConn(nc)
	ver := refEncode(Tversion, NOTAG, []refItem{refU32(8192), refS("9P2000.u")}, true)
	att := refEncode(Tattach, 1, []refItem{refU32(0), refU32(NOFID), refS("u0"), refS(""), refU32(0)}, true)
	nc.in <- ver
	vxQuiesce()
	nc.in <- att
	vxQuiesce()
	nc.in <- refEncode(Topen, 1, []refItem{refU32(0), refU8(ORDWR)}, true)
	vxQuiesce()
	g := make(chan bool, 1)
	kit.ops.gate = map[uint16]chan bool{5: g}
	nc.in <- refEncode(Tread, 5, []refItem{refU32(0), refU64(0x0101), refU32(2)}, true)
	vxQuiesce()
	delete(kit.ops.gate, 5) // only the first member of the group is held
	for i := 0; i < waiting; i++ {
		nc.in <- refEncode(Tread, 5, []refItem{refU32(0), refU64(uint64(i+2) * 0x0101), refU32(2)}, true)
	}
	nc.in <- refEncode(Tstat, 6, []refItem{refU32(0)}, true)
	vxQuiesce()
	mark := len(nc.wire)
	nc.in <- ver
	vxQuiesce()
	fs, ok := vxFrames(nc.wire[mark:])
	vxAssert(ok && len(fs) == 1 && fs[0].typ == Rversion, "mid-session-Tversion-answered")
	if late {
		vxH03ResetLate(kit, nc, g)
		return
	}
	// the held request returns after the reset
	g <- true
	vxQuiesce()
	mark = len(nc.wire)
	// new session: the old fids may or may not survive (the statement is silent); use a fresh fid number
	nc.in <- refEncode(Tattach, 1, []refItem{refU32(9), refU32(NOFID), refS("u0"), refS(""), refU32(0)}, true)
	vxQuiesce()
	nc.in <- refEncode(Tstat, 5, []refItem{refU32(9)}, true)
	vxQuiesce()
	nc.in <- refEncode(Tstat, 6, []refItem{refU32(9)}, true)
	vxQuiesce()
	nc.in <- refEncode(Tstat, 5, []refItem{refU32(9)}, true)
	vxQuiesce()
	fs, ok = vxFrames(nc.wire[mark:])
	vxAssert(ok, "reply-stream-well-formed")
	n5, n6, natt, other := 0, 0, 0, 0
	for _, f := range fs {
		switch {
		case f.typ == Rattach && f.tag == 1:
			natt++
		case f.typ == Rstat && f.tag == 5:
			n5++
		case f.typ == Rstat && f.tag == 6:
			n6++
		default:
			other++
		}
	}
	vxAssert(natt == 1, "attach-after-the-reset-answered")
	vxAssert(n5 == 2 && n6 == 1, "requests-reusing-the-aborted-tags-are-answered-once-each")
	vxAssert(other == 0, "no-reply-for-an-aborted-request-after-the-reset")
	vxReach("done")
}

// the aborted request is still executing when the new session reuses its tag for a group of its own: the old
// request's end must not disturb the new group (one at a time, in arrival order, each answered once)
func vxH03ResetLate(kit *vxKit, nc *vxNetConn, oldGate chan bool) {
	mark := len(nc.wire)
	nc.in <- refEncode(Tattach, 1, []refItem{refU32(9), refU32(NOFID), refS("u0"), refS(""), refU32(0)}, true)
	vxQuiesce()
	g2 := make(chan bool, 1)
	kit.ops.gate[5] = g2
	nc.in <- refEncode(Tstat, 5, []refItem{refU32(9)}, true) // B: first of the new group, held once it has started
	vxQuiesce()
	oldGate <- true // the aborted request of the old session returns now
	vxQuiesce()
	delete(kit.ops.gate, 5)
	before := kit.ops.ncalls("stat")
	vxAssert(before >= 1, "first-member-of-the-new-group-is-executing")
	nc.in <- refEncode(Tstat, 5, []refItem{refU32(9)}, true) // C: queued behind B
	vxQuiesce()
	vxAssert(kit.ops.ncalls("stat") == before, "second-member-of-the-new-group-waits-for-the-first")
	g2 <- true
	vxQuiesce()
	vxAssert(kit.ops.ncalls("stat") == before+1, "second-member-starts-after-the-first-was-answered")
	fs, ok := vxFrames(nc.wire[mark:])
	vxAssert(ok, "reply-stream-well-formed")
	n5, other := 0, 0
	for _, f := range fs {
		switch {
		case f.typ == Rattach && f.tag == 1:
		case f.typ == Rstat && f.tag == 5:
			n5++
		default:
			other++
		}
	}
	vxAssert(n5 == 2 && other == 0, "new-group-answered-once-each-and-nothing-else")
	vxReach("done")
}
