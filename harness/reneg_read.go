package go9p

// H.reneg-read (C14 and C15): "every negotiated msize" includes one that was negotiated twice. A client negotiates
// msize m1, sends a second Tversion with m2 (smaller, equal, larger than m1, larger than the server's own limit),
// and then reads a file or a directory of the Unix file server with the largest count the msize the server
// answered in its second Rversion allows. Whatever the server granted, the read is answered with the file's bytes /
// with whole decodable stat records, in a well-formed frame no longer than the granted msize.
func vxHRenegRead(dotu bool, dir bool) {
	k := vxNewUfsKit(dotu, 8192)
	root := k.rootDir()
	content := make([]byte, 300)
	for i := range content {
		content[i] = byte(i*7 + 1)
	}
	k.fs.addFile(root, "f", 0644, content)
	k.fs.addDir(root, "d", 0755)
	nc := vxNewNetConn()
	k.ufs.NewConn(nc)
	ver := "9P2000"
	if dotu {
		ver = "9P2000.u"
	}
	const m1 = 128
	nc.in <- refEncode(Tversion, NOTAG, []refItem{refU32(m1), refS(ver)}, dotu)
	vxQuiesce()
	m2 := []uint32{100, 128, 129, 400, 8192, 9000}[vxChoose("msize2", 6)]
	nc.in <- refEncode(Tversion, NOTAG, []refItem{refU32(m2), refS(ver)}, dotu)
	vxQuiesce()
	fr, ok := vxFrames(vxRRConcat(nc.writes))
	vxAssert(ok && len(fr) == 2 && fr[1].typ == Rversion && len(fr[1].body) >= 4, "second-Tversion-answered")
	if !ok || len(fr) != 2 || fr[1].typ != Rversion || len(fr[1].body) < 4 {
		return
	}
	granted := vxRR32(fr[1].body)
	vxAssert(granted >= IOHDRSZ && granted <= m2 && granted <= 8192, "granted-msize-within-both-limits")
	att := []refItem{refU32(0), refU32(NOFID), refS(""), refS("")}
	if dotu {
		att = append(att, refU32(0))
	}
	nc.in <- refEncode(Tattach, 1, att, dotu)
	vxQuiesce()
	if !dir {
		nc.in <- refEncode(Twalk, 1, []refItem{refU32(0), refU32(0), {kind: rkNstr, ss: []string{"f"}}}, dotu)
		vxQuiesce()
	}
	nc.in <- refEncode(Topen, 1, []refItem{refU32(0), refU8(OREAD)}, dotu)
	vxQuiesce()
	count := granted - IOHDRSZ
	nc.in <- refEncode(Tread, 2, []refItem{refU32(0), refU64(0), refU32(count)}, dotu)
	vxQuiesce()
	fr, ok = vxFrames(vxRRConcat(nc.writes))
	vxAssert(ok, "reply-stream-well-formed")
	if !ok {
		return
	}
	vxAssert(len(fr) > 0 && fr[len(fr)-1].tag == 2, "read-answered")
	if len(fr) == 0 || fr[len(fr)-1].tag != 2 {
		return
	}
	r := fr[len(fr)-1]
	vxAssert(uint32(len(r.raw)) <= granted, "reply-no-longer-than-granted-msize")
	if dir {
		if r.typ == Rerror {
			vxReach("dir-too-small")
			return
		}
		vxAssert(r.typ == Rread && len(r.body) >= 4, "dir-read-answered-with-Rread")
		if r.typ != Rread || len(r.body) < 4 {
			return
		}
		n := int(vxRR32(r.body))
		vxAssert(n == len(r.body)-4 && uint32(n) <= count, "dir-read-count-consistent")
		data := r.body[4:]
		recs := 0
		for len(data) > 0 {
			_, used, ok := refParseStat(data, dotu)
			vxAssert(ok, "dir-read-whole-decodable-records")
			if !ok {
				return
			}
			data = data[used:]
			recs++
		}
		vxAssert(recs > 0, "dir-read-at-offset-0-returns-entries")
		vxReach("dir-read")
		return
	}
	vxAssert(r.typ == Rread && len(r.body) >= 4, "file-read-answered-with-Rread")
	if r.typ != Rread || len(r.body) < 4 {
		return
	}
	want := int(count)
	if want > len(content) {
		want = len(content)
	}
	n := int(vxRR32(r.body))
	vxAssert(n == len(r.body)-4 && n == want, "file-read-returns-the-bytes-asked-for-up-to-eof")
	if n == len(r.body)-4 && n == want {
		same := true
		for i := 0; i < n; i++ {
			same = same && r.body[4+i] == content[i]
		}
		vxAssert(same, "file-read-bytes-equal-the-file")
	}
	vxReach("file-read")
}

func vxRRConcat(ws [][]byte) []byte {
	var b []byte
	for _, w := range ws {
		b = append(b, w...)
	}
	return b
}

func vxRR32(b []byte) uint32 {
	return uint32(b[0]) | uint32(b[1])<<8 | uint32(b[2])<<16 | uint32(b[3])<<24
}
