package go9p

// C19 — no data races when concurrent requests operate on different fids. The engine's happens-before
// detector runs on every explored schedule; these harnesses only provide the workloads the statement allows.

// H19.ufs: the Unix file server on the model file system: two walks from one shared fid, a read and a stat on
// other fids, all outstanding at once.
func vxH19Ufs(dotu bool, batch int) {
	k := vxNewUfsKit(dotu, 8192)
	root := k.rootDir()
	k.fs.addDir(root, "a", 0755)
	k.fs.addFile(root, "f", 0644, []byte{1, 2, 3})
	nc := vxNewNetConn()
	k.ufs.NewConn(nc)
	ver := "9P2000"
	if dotu {
		ver = "9P2000.u"
	}
	att := []refItem{refU32(0), refU32(NOFID), refS("u0"), refS("")}
	if dotu {
		att = append(att, refU32(0))
	}
	nc.in <- refEncode(Tversion, NOTAG, []refItem{refU32(8192), refS(ver)}, dotu)
	vxQuiesce()
	nc.in <- refEncode(Tattach, 1, att, dotu)
	vxQuiesce()
	nc.in <- refEncode(Twalk, 1, []refItem{refU32(0), refU32(3), {kind: rkNstr, ss: []string{"f"}}}, dotu)
	vxQuiesce()
	nc.in <- refEncode(Topen, 1, []refItem{refU32(3), refU8(OREAD)}, dotu)
	vxQuiesce()
	nc.in <- refEncode(Twalk, 1, []refItem{refU32(0), refU32(4), {kind: rkNstr, ss: []string{"a"}}}, dotu)
	vxQuiesce()
	vxAssert(len(nc.writes) == 5, "prologue-answered")
	before := len(nc.writes)
	var seg []byte
	n := 0
	add := func(p []byte) { seg = append(seg, p...); n++ }
	add(refEncode(Twalk, 10, []refItem{refU32(0), refU32(1), {kind: rkNstr, ss: []string{"a"}}}, dotu))
	add(refEncode(Twalk, 11, []refItem{refU32(0), refU32(2), {kind: rkNstr, ss: []string{"f"}}}, dotu))
	if batch >= 1 {
		add(refEncode(Tread, 12, []refItem{refU32(3), refU64(0), refU32(2)}, dotu))
	}
	if batch >= 2 {
		add(refEncode(Tstat, 13, []refItem{refU32(4)}, dotu))
	}
	nc.in <- seg
	vxQuiesce()
	vxAssert(len(nc.writes) == before+n, "all-answered")
	for i := before; i < len(nc.writes); i++ {
		vxAssert(nc.writes[i][4] != Rerror, "no-error-reply")
	}
	vxReach("done")
}


// H19.ufswrite: a Twrite is still executing in the Unix file server while the connection receives more than a
// receive buffer's worth of further requests (each naming a different, unknown fid): the bytes the write hands to
// the file must not be touched by the receive loop.
func vxH19UfsWrite(msize int, nmore int) {
	k := vxNewUfsKit(true, uint32(msize))
	root := k.rootDir()
	k.fs.addFile(root, "f", 0644, []byte{1, 2, 3})
	nc := vxNewNetConn()
	k.ufs.NewConn(nc)
	nc.in <- refEncode(Tversion, NOTAG, []refItem{refU32(uint32(msize)), refS("9P2000.u")}, true)
	vxQuiesce()
	nc.in <- refEncode(Tattach, 1, []refItem{refU32(0), refU32(NOFID), refS(""), refS(""), refU32(0)}, true)
	vxQuiesce()
	nc.in <- refEncode(Twalk, 1, []refItem{refU32(0), refU32(1), {kind: rkNstr, ss: []string{"f"}}}, true)
	vxQuiesce()
	nc.in <- refEncode(Topen, 1, []refItem{refU32(1), refU8(ORDWR)}, true)
	vxQuiesce()
	before := len(nc.writes)
	vxAssert(before == 4, "prologue-answered")
	stream := refEncode(Twrite, 10, []refItem{refU32(1), refU64(0), {kind: rkData, cnt: 3, b: vxBytes("payload", 3)}}, true)
	for i := 0; i < nmore; i++ {
		// msize-sized requests on unknown fids (a walk with a 13-byte name is exactly 32 bytes)
		stream = append(stream, refEncode(Twalk, uint16(20+i), []refItem{refU32(uint32(100 + i)), refU32(uint32(200 + i)), {kind: rkNstr, ss: []string{"0123456789abc"}}}, true)...)
	}
	nc.in <- stream
	vxQuiesce()
	vxAssert(len(nc.writes) == before+1+nmore, "all-answered")
	vxReach("done")
}
