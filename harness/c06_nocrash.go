package go9p

// C06 — no client behaviour can crash the server. Panic freedom is the conjunction of the engine's panic VCs over
// harnesses that cover every code path a client can drive, each from an arbitrary valid pre-state (one step).

func vxFidChoice(name string, withAuth bool) uint32 {
	n := 4
	if withAuth {
		n = 5
	}
	switch vxChoose(name, n) {
	case 0:
		return 1
	case 1:
		return 2
	case 2:
		return 9 // absent
	case 3:
		return NOFID
	}
	return 3 // the auth fid
}

// H06.step: one request of type typ with every field symbolic, against a scripted implementation.
func vxH06Step(typ int, withAuth bool, msize int) {
	dotu := vxBool("dotu")
	k := vxNewKit(withAuth, false, uint32(msize), dotu)
	conn := k.conn
	f1 := k.addFid(conn, 1, k.users.u1, vxU8("ftype"))
	f1.opened = vxBool("opened")
	f1.Omode = vxU8("omode")
	f1.Diroffset = vxU64("diroffset")
	if withAuth {
		// reachable state: auth fids are created by Tauth and carry QTAUTH; the others never do
		vxAssume(f1.Type&QTAUTH == 0)
		k.addFid(conn, 3, k.users.u0, QTAUTH)
	} else {
		vxAssume(f1.Type&QTAUTH == 0)
	}
	k.addFid(conn, 2, k.users.u0, QTDIR)
	k.ops.outcome = []int{vxOutOK, vxOutErr, vxOutNone, vxOutPartial}[vxChoose("outcome", 4)]
	k.ops.partialN = vxChoose("partial", 2)
	k.ops.qid = vxSymQid("qid")
	k.ops.data = vxBytes("rdata", vxChoose("nrdata", 3))
	k.ops.count = vxU32("wcount")
	k.ops.errText = vxString("etext", vxChoose("netext", 2)*40)
	k.ops.dir = &Dir{Name: vxString("dname", 1), Uid: "u", Gid: "g", Muid: "m", Mode: vxU32("dmode"), Length: vxU64("dlen")}

	tc := &Fcall{Type: uint8(typ), Tag: vxU16("tag")}
	tc.Fid = vxFidChoice("fid", withAuth)
	tc.Afid, tc.Newfid = NOFID, NOFID
	switch typ {
	case Tversion:
		tc.Tag = NOTAG
		tc.Msize = vxU32("tmsize")
		tc.Version = []string{"9P2000", "9P2000.u", "9Pxxxx", ""}[vxChoose("version", 4)]
	case Tauth:
		tc.Afid = vxFidChoice("afid", withAuth)
		tc.Unamenum = vxU32("uid")
		tc.Uname = []string{"u0", "zz", ""}[vxChoose("uname", 3)]
		tc.Aname = vxString("aname", 1)
	case Tattach:
		tc.Afid = vxFidChoice("afid", withAuth)
		tc.Unamenum = vxU32("uid")
		tc.Uname = []string{"u0", "zz", ""}[vxChoose("uname", 3)]
		tc.Aname = vxString("aname", 1)
	case Tflush:
		tc.Oldtag = vxU16("oldtag")
	case Twalk:
		tc.Newfid = vxFidChoice("newfid", withAuth)
		n := vxChoose("nwname", 3)
		for i := 0; i < n; i++ {
			tc.Wname = append(tc.Wname, vxString("wname", 1))
		}
	case Topen:
		tc.Mode = vxU8("mode")
	case Tcreate:
		tc.Mode = vxU8("mode")
		tc.Perm = vxU32("perm")
		tc.Name = vxString("name", 1)
		tc.Ext = vxString("ext", 1)
	case Tread:
		tc.Offset = vxU64("offset")
		tc.Count = vxU32("count")
	case Twrite:
		tc.Offset = vxU64("offset")
		tc.Count = vxU32("count")
		tc.Data = vxBytes("data", 2)
	case Twstat:
		tc.Dir = *vxSymDir("wdir", 1, dotu)
	}
	vxObserve("@type", typ)
	req := k.newReq(conn, tc, uint32(msize))
	req.Process()
	// what the send goroutine does with a queued reply
	for _, r := range k.replies(conn) {
		SetTag(r.Rc, r.Tc.Tag)
		vxAssert(len(r.Rc.Pkt) <= len(r.Rc.Buf), "reply-fits-its-buffer")
		if len(r.Rc.Pkt) >= 4 {
			vxAssert(int(uint32(r.Rc.Pkt[0])|uint32(r.Rc.Pkt[1])<<8|uint32(r.Rc.Pkt[2])<<16|uint32(r.Rc.Pkt[3])<<24) == len(r.Rc.Pkt), "reply-size-field-matches")
		}
	}
	vxReach("done")
}

// H06.frame: arbitrary bytes arrive on one connection of a running server: no panic, a malformed frame ends only
// that connection, other and later connections keep being served.
func vxH06Frame(nmax int, msize int) {
	kit := vxNewKit(false, false, uint32(msize), true)
	kit.ops.hook = func(op string, req *SrvReq) { vxYield() }
	nb := vxNewNetConn()
	kit.srv.NewConn(nb)
	vxQuiesce()
	nc := vxNewNetConn()
	kit.srv.NewConn(nc)
	vxQuiesce()
	n := vxChoose("N", nmax+1)
	frame := vxBytes("frame", n)
	vxObserve("N", n)
	if n > 4 {
		vxObserve("@type", frame[4])
	}
	nc.in <- frame
	vxQuiesce()
	// the bystander and a new connection are served
	ver := refEncode(Tversion, NOTAG, []refItem{refU32(uint32(msize)), refS("9P2000")}, false)
	nb.in <- ver
	vxQuiesce()
	vxAssert(len(nb.writes) == 1, "bystander-served")
	if len(nb.writes) == 1 {
		vxAssert(nb.writes[0][4] == Rversion, "bystander-answer")
	}
	nn := vxNewNetConn()
	kit.srv.NewConn(nn)
	nn.in <- ver
	vxQuiesce()
	vxAssert(len(nn.writes) == 1, "later-connection-served")
	vxReach("done")
}

// H06.session: after a real session prologue (Tversion, Tattach fid 0, Twalk 0->1, Topen 1) one frame of the
// given type and length arrives whose tag and whole body are symbolic: receive loop, decoder, worker goroutine,
// implementation, reply path and sender all run on it. No panic; the bystander is still served afterwards.
func vxH06Session(typ int, n int, msize int) {
	kit := vxNewKit(true, true, uint32(msize), true)
	kit.ops.outcome = []int{vxOutOK, vxOutErr}[vxChoose("outcome", 2)]
	nb := vxNewNetConn()
	kit.srv.NewConn(nb)
	vxQuiesce()
	nc := vxNewNetConn()
	kit.srv.NewConn(nc)
	vxQuiesce()
	nc.in <- refEncode(Tversion, NOTAG, []refItem{refU32(uint32(msize)), refS("9P2000.u")}, true)
	vxQuiesce()
	nc.in <- refEncode(Tattach, 1, []refItem{refU32(0), refU32(NOFID), refS(""), refS(""), refU32(0)}, true)
	vxQuiesce()
	nc.in <- refEncode(Twalk, 1, []refItem{refU32(0), refU32(1), {kind: rkNstr, ss: nil}}, true)
	vxQuiesce()
	nc.in <- refEncode(Topen, 1, []refItem{refU32(1), refU8(ORDWR)}, true)
	vxQuiesce()
	vxAssert(len(nc.writes) == 4, "prologue-answered")
	frame := vxBytes("frame", n)
	frame[0], frame[1], frame[2], frame[3] = byte(n), byte(n>>8), 0, 0
	frame[4] = byte(typ)
	vxObserve("@type", typ)
	nc.in <- frame
	vxQuiesce()
	// a follow-up request on the same connection is answered or the connection was dropped as a whole
	alive := false
	for c := range kit.srv.conns {
		if c.conn == nc {
			alive = true
		}
	}
	if alive {
		before := len(nc.writes)
		kit.ops.outcome = vxOutOK
		nc.in <- refEncode(Tstat, 0x7f7f, []refItem{refU32(0)}, true)
		vxQuiesce()
		// the symbolic request may itself have used tag 0x7f7f and still be outstanding (no answer): then the
		// follow-up is queued behind it; otherwise it must be answered
		vxAssert(len(nc.writes) >= before, "connection-state-consistent")
		vxReach("alive")
	} else {
		vxReach("dropped")
	}
	ver := refEncode(Tversion, NOTAG, []refItem{refU32(uint32(msize)), refS("9P2000")}, false)
	nb.in <- ver
	vxQuiesce()
	vxAssert(len(nb.writes) == 1, "bystander-served")
	vxReach("done")
}
