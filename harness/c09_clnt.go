package go9p

// C09 — client calls get their own reply; outstanding tags are pairwise distinct; tags and request slots are
// recycled; Rerror -> error with the server's text and number; wrong reply type -> error; Tag interface: FIFO.

// vxOpsDigit: the op of caller i is the i-th base-4 digit of ops (0 Read, 1 Write, 2 Stat, 3 Walk).
func vxOpsDigit(ops int, i int) int {
	for ; i > 0; i-- {
		ops /= 4
	}
	return ops % 4
}

var vxPerms = [][][]int{
	{{}},
	{{0}},
	{{0, 1}, {1, 0}},
	{{0, 1, 2}, {0, 2, 1}, {1, 0, 2}, {1, 2, 0}, {2, 0, 1}, {2, 1, 0}},
}

// vxCutOf: a representative cut position inside a reply of n bytes: whole / inside the size prefix / right after
// the 7-byte header / one byte before the end. (C13 covers every cut position; here segmentation is only crossed
// with schedules and reply orders.)
func vxCutOf(sel int, n int) int {
	switch sel {
	case 1:
		return 3
	case 2:
		return 7
	case 3:
		return n - 1
	}
	return 0
}

// H09.rpc: k concurrent callers on one real client; the scripted peer answers in a chosen order (a permutation of
// the callers), either as soon as possible (eager: a reply may overtake later requests) or only after all k
// requests are on the wire; each reply is the matching R / an Rerror / an R of another type; each reply may be
// cut into two segments. ntags <= 0: client built by NewClnt; ntags > 0: literal with a pool of ntags tags.
func vxH09Rpc(k int, ops int, ntags int, dotu bool, seg bool, gopeer bool) {
	nc := vxNewCConn()
	// ---- all nondeterministic draws first (schedule independent order) ----
	kinds := make([]int, k)
	etext := make([]string, k)
	ecode := make([]uint32, k)
	cuts := make([]int, k)
	for i := 0; i < k; i++ {
		kinds[i] = vxChoose("kind", 3)
		etext[i] = vxString("etext", 2)
		ecode[i] = vxU32("ecode")
		if seg {
			cuts[i] = vxChoose("cut", 4)
		}
	}
	order := vxPerms[k][vxChoose("order", len(vxPerms[k]))]
	eager := vxChoose("eager", 2) == 1
	clnt := vxNewClient(nc, 8192, dotu, ntags)
	callers := make([]*vxCaller, k+1)
	for i := 0; i <= k; i++ {
		op := vxOpsDigit(ops, i)
		if i == k {
			op = vxOpRead
		}
		callers[i] = vxNewCaller(clnt, i, op)
	}
	// distinct callers have distinct payloads (their fids differ anyway; make the data differ too)
	for i := 0; i <= k; i++ {
		for j := 0; j < i; j++ {
			vxAssume(uint16(callers[i].off) != uint16(callers[j].off))
		}
	}

	sent := 0
	onReq := func(p *vxPeer, r *vxPReq) {
		// the request on the wire is exactly what its caller asked for
		for _, c := range callers {
			if c.fid.Fid == r.fidOf() {
				vxAssert(refBytesEq(r.f.raw, c.wantRequest(r.f.tag, dotu)), "request-on-the-wire-is-the-callers-request")
			}
		}
		if r.fidOf() == vxFidNo(k) {
			// the follow-up call made after the concurrent phase
			p.send(r, p.matchingReply(r), 0)
			return
		}
		for sent < k {
			if !eager && len(p.reqs) < k {
				return
			}
			i := order[sent]
			rq := p.findReq(vxFidNo(i), 0)
			if rq == nil {
				return
			}
			var pkt []byte
			switch kinds[i] {
			case vxKindMatch:
				pkt = p.matchingReply(rq)
			case vxKindError:
				pkt = p.errorReply(rq, etext[i], ecode[i])
			default:
				pkt = p.wrongReply(rq)
			}
			p.send(rq, pkt, vxCutOf(cuts[i], len(pkt)))
			sent++
		}
	}
	var peer *vxPeer
	if gopeer {
		peer = vxNewPeerGo(nc, dotu, onReq)
	} else {
		peer = vxNewPeer(nc, dotu, onReq)
	}

	for i := 0; i < k; i++ {
		go callers[i].call(clnt)
	}
	if !vxAwaitCallers(callers[:k]) {
		return
	}

	vxAssert(!peer.badWire, "client-writes-whole-frames")
	vxAssert(!peer.dupTag, "outstanding-tags-pairwise-distinct")
	vxAssert(len(peer.reqs) == k, "one-request-per-call")
	for i := 0; i < k; i++ {
		c := callers[i]
		switch kinds[i] {
		case vxKindMatch:
			vxAssert(c.gotMatching(dotu), "matching-reply-returns-exactly-the-callers-own-payload")
		case vxKindError:
			vxAssert(c.gotError(etext[i], ecode[i], dotu), "rerror-becomes-error-with-servers-text-and-number")
			vxAssert(c.noPayload(), "failed-call-returns-no-data")
		default:
			vxAssert(c.err != nil, "reply-of-wrong-type-becomes-error")
			vxAssert(c.noPayload(), "failed-call-returns-no-data")
		}
	}
	// the connection is still usable and slots are reused: one more call
	last := callers[k]
	last.call(clnt)
	vxAssert(last.gotMatching(dotu), "follow-up-call-gets-its-own-reply")
	vxAssert(!peer.dupTag, "outstanding-tags-pairwise-distinct")
	vxReach("done")
}
