package go9p

// C09 — client calls get their own reply; outstanding tags are pairwise distinct; tags and request slots are
// recycled; Rerror -> error with the server's text and number; wrong reply type -> error; Tag interface: FIFO.

// vxOpsDigit: the op of caller i is the i-th base-4 digit of ops (0 Read, 1 Write, 2 Stat, 3 Walk).
func vxOpsDigit(ops int, i int) int {
	for ; i > 0; i-- {
		ops /= 4
	}
	return ops % 4
}

var vxPerms = [][][]int{
	{{}},
	{{0}},
	{{0, 1}, {1, 0}},
	{{0, 1, 2}, {0, 2, 1}, {1, 0, 2}, {1, 2, 0}, {2, 0, 1}, {2, 1, 0}},
}

// vxCutOf: a representative cut position inside a reply of n bytes: whole / inside the size prefix / right after
// the 7-byte header / one byte before the end. (C13 covers every cut position; here segmentation is only crossed
// with schedules and reply orders.)
func vxCutOf(sel int, n int) int {
	switch sel {
	case 1:
		return 3
	case 2:
		return 7
	case 3:
		return n - 1
	}
	return 0
}

// H09.rpc: k concurrent callers on one real client; the scripted peer answers in a chosen order (a permutation of
// the callers), either as soon as possible (eager: a reply may overtake later requests) or only after all k
// requests are on the wire; each reply is the matching R / an Rerror / an R of another type; each reply may be
// cut into two segments. ntags <= 0: client built by NewClnt; ntags > 0: literal with a pool of ntags tags.
// kindsel < 0: every combination of reply kinds; otherwise caller i gets kind = i-th base-3 digit of kindsel.
func vxH09Rpc(k int, ops int, kindsel int, ntags int, dotu bool, seg bool, gopeer bool) {
	nc := vxNewCConn()
	// ---- all nondeterministic draws first (schedule independent order) ----
	kinds := make([]int, k)
	etext := make([]string, k)
	ecode := make([]uint32, k)
	cuts := make([]int, k)
	for i := 0; i < k; i++ {
		if kindsel < 0 {
			kinds[i] = vxChoose("kind", 3)
		} else {
			kinds[i] = kindsel % 3
			kindsel /= 3
		}
		etext[i] = vxString("etext", 2)
		ecode[i] = vxU32("ecode")
		if seg {
			cuts[i] = vxChoose("cut", 4)
		}
	}
	order := vxPerms[k][vxChoose("order", len(vxPerms[k]))]
	eager := vxChoose("eager", 2) == 1
	clnt := vxNewClient(nc, 128, dotu, ntags)
	callers := make([]*vxCaller, k+1)
	for i := 0; i <= k; i++ {
		op := vxOpsDigit(ops, i)
		if i == k {
			op = vxOpRead
		}
		callers[i] = vxNewCaller(clnt, i, op)
	}
	// distinct callers have distinct payloads (their fids differ anyway; make the data differ too)
	for i := 0; i <= k; i++ {
		for j := 0; j < i; j++ {
			if callers[i].op <= vxOpWrite && callers[j].op <= vxOpWrite {
				vxAssume(uint16(callers[i].off) != uint16(callers[j].off))
			}
		}
	}

	sent := 0
	onReq := func(p *vxPeer, r *vxPReq) {
		// the request on the wire is exactly what its caller asked for
		for _, c := range callers {
			if c.fid.Fid == r.fidOf() {
				vxAssert(refBytesEq(r.f.raw, c.wantRequest(r.f.tag, dotu)), "request-on-the-wire-is-the-callers-request")
			}
		}
		if r.fidOf() == vxFidNo(k) {
			// the follow-up call made after the concurrent phase
			p.send(r, p.matchingReply(r), 0)
			return
		}
		for sent < k {
			if !eager && len(p.reqs) < k {
				return
			}
			i := order[sent]
			rq := p.findReq(vxFidNo(i), 0)
			if rq == nil {
				return
			}
			var pkt []byte
			switch kinds[i] {
			case vxKindMatch:
				pkt = p.matchingReply(rq)
			case vxKindError:
				pkt = p.errorReply(rq, etext[i], ecode[i])
			default:
				pkt = p.wrongReply(rq)
			}
			p.send(rq, pkt, vxCutOf(cuts[i], len(pkt)))
			sent++
		}
	}
	var peer *vxPeer
	if gopeer {
		peer = vxNewPeerGo(nc, dotu, onReq)
	} else {
		peer = vxNewPeer(nc, dotu, onReq)
	}

	for i := 0; i < k; i++ {
		go callers[i].call(clnt)
	}
	if !vxAwaitCallers(callers[:k]) {
		return
	}

	peer.sync()
	vxAssert(!peer.badWire, "client-writes-whole-frames")
	vxAssert(!peer.dupTag, "outstanding-tags-pairwise-distinct")
	vxAssert(len(peer.reqs) == k, "one-request-per-call")
	for i := 0; i < k; i++ {
		c := callers[i]
		switch kinds[i] {
		case vxKindMatch:
			vxAssert(c.gotMatching(dotu), "matching-reply-returns-exactly-the-callers-own-payload")
		case vxKindError:
			vxAssert(c.gotError(etext[i], ecode[i], dotu), "rerror-becomes-error-with-servers-text-and-number")
			vxAssert(c.noPayload(), "failed-call-returns-no-data")
		default:
			vxAssert(c.err != nil, "reply-of-wrong-type-becomes-error")
			vxAssert(c.noPayload(), "failed-call-returns-no-data")
		}
	}
	// the connection is still usable and slots are reused: one more call
	last := callers[k]
	last.call(clnt)
	vxAssert(last.gotMatching(dotu), "follow-up-call-gets-its-own-reply")
	peer.sync()
	vxAssert(!peer.dupTag, "outstanding-tags-pairwise-distinct")
	vxReach("done")
}

// ---- H09.pool: tag / request-slot conservation and recycling (sequential lemma) ----

// vxTagCensus drains and restores the free-tag pool and the cache of request slots and walks the list of
// outstanding requests; it returns how often each tag 0..n-1 occurs anywhere, and whether a tag >= n was seen.
func vxTagCensus(clnt *Clnt, n int) (cnt []int, alien bool) {
	cnt = make([]int, n)
	note := func(t uint32) {
		if int(t) < n {
			cnt[t]++
		} else {
			alien = true
		}
	}
	var ids []uint32
	for {
		select {
		case id := <-clnt.tagpool.id:
			ids = append(ids, id)
			continue
		default:
		}
		break
	}
	for _, id := range ids {
		note(id)
		clnt.tagpool.id <- id
	}
	var rs []*Req
	for {
		select {
		case r := <-clnt.reqchan:
			rs = append(rs, r)
			continue
		default:
		}
		break
	}
	for _, r := range rs {
		note(uint32(r.tag))
		clnt.reqchan <- r
	}
	for r := clnt.reqfirst; r != nil; r = r.next {
		note(uint32(r.tag))
	}
	return
}

// H09.pool: a client whose pool has 3 tags, every distribution of the three tags over {free pool, cached request
// slot, outstanding request} that leaves one tag usable; one complete call conserves the multiset of tags and never
// uses an outstanding tag; then ncalls further consecutive calls (more calls than tags) all complete.
func vxH09Pool(ncalls int, dotu bool) {
	const ntags = 3
	nc := vxNewCConn()
	where := make([]int, ntags) // 0 free, 1 cached, 2 outstanding
	nout := 0
	for t := range where {
		where[t] = vxChoose("where", 3)
		if where[t] == 2 {
			nout++
		}
	}
	if nout == ntags {
		// every tag in use: the next call waits for one by design ("Get ... will block until there are some")
		vxReach("all-tags-outstanding")
		return
	}
	clnt := vxNewClient(nc, 128, dotu, ntags)
	callers := make([]*vxCaller, ncalls+1)
	for i := range callers {
		callers[i] = vxNewCaller(clnt, i, vxOpRead)
	}
	// establish the distribution: take all tags out of the fresh pool and put each where it belongs
	for t := 0; t < ntags; t++ {
		<-clnt.tagpool.id
	}
	for t := 0; t < ntags; t++ {
		switch where[t] {
		case 0:
			clnt.tagpool.id <- uint32(t)
		case 1:
			clnt.reqchan <- &Req{Clnt: clnt, tag: uint16(t)}
		case 2:
			// an outstanding call of somebody else that the server has not answered (and will not answer here)
			tc := NewFcall(128)
			PackTclunk(tc, 900+uint32(t))
			SetTag(tc, uint16(t))
			r := &Req{Clnt: clnt, tag: uint16(t), Tc: tc, Done: make(chan *Req, 1)}
			if clnt.reqlast != nil {
				clnt.reqlast.next = r
			} else {
				clnt.reqfirst = r
			}
			r.prev = clnt.reqlast
			clnt.reqlast = r
		}
	}
	usedOutstanding := false
	peer := vxNewPeer(nc, dotu, func(p *vxPeer, r *vxPReq) {
		for t := 0; t < ntags; t++ {
			if where[t] == 2 && r.f.tag == uint16(t) {
				usedOutstanding = true
			}
		}
		p.send(r, p.matchingReply(r), 0)
	})
	check := func(stage string) {
		cnt, alien := vxTagCensus(clnt, ntags)
		vxAssert(!alien, "no-tag-outside-the-pool-range")
		for t := 0; t < ntags; t++ {
			vxAssert(cnt[t] == 1, "each-tag-is-in-exactly-one-place-"+stage)
		}
		n := 0
		for r := clnt.reqfirst; r != nil; r = r.next {
			n++
			vxAssert(int(r.tag) < ntags && where[r.tag] == 2, "outstanding-list-holds-only-the-unanswered-requests-"+stage)
		}
		vxAssert(n == nout, "outstanding-list-holds-only-the-unanswered-requests-"+stage)
	}
	check("before")
	for i := 0; i <= ncalls; i++ {
		c := callers[i]
		c.call(clnt)
		vxAssert(c.gotMatching(dotu), "call-returns-its-own-reply")
		if i == 0 {
			vxQuiesce()
			check("after-one-call")
		}
	}
	vxQuiesce()
	check("after-all-calls")
	peer.sync()
	vxAssert(!usedOutstanding, "a-new-call-never-uses-an-outstanding-tag")
	vxAssert(!peer.dupTag, "outstanding-tags-pairwise-distinct")
	vxAssert(len(peer.reqs) == ncalls+1, "one-request-per-call")
	vxReach("done")
}

// ---- H09.tag: the pipelined Tag interface ----

// n requests are issued back to back under one Tag (so they share a tag on the wire); the peer answers them in
// the order it received them (it has no other way: they carry the same tag), eagerly or after all n arrived,
// each with the matching Rread or an Rerror. They must come out of the user's channel in issue order, each with
// the reply to its own request. One ordinary call may run concurrently (other = true).
func vxH09Tag(n int, chancap int, other bool, dotu bool) {
	nc := vxNewCConn()
	kinds := make([]int, n)
	for i := range kinds {
		kinds[i] = vxChoose("kind", 2)
	}
	eager := vxChoose("eager", 2) == 1
	clnt := vxNewClient(nc, 128, dotu, 3)
	offs := make([]uint64, n)
	for i := range offs {
		offs[i] = vxU64("offset")
	}
	oc := vxNewCaller(clnt, n, vxOpRead)
	nshared := 0
	sent := 0
	var pend []*vxPReq
	peer := vxNewPeer(nc, dotu, func(p *vxPeer, r *vxPReq) {
		if r.fidOf() == vxFidNo(n) {
			p.send(r, p.matchingReply(r), 0)
			return
		}
		nshared++
		pend = append(pend, r)
		if !eager && nshared < n {
			return
		}
		for _, q := range pend {
			if kinds[sent] == vxKindMatch {
				p.send(q, p.matchingReply(q), 0)
			} else {
				p.send(q, p.errorReply(q, "no", 5), 0)
			}
			sent++
		}
		pend = nil
	})
	user := make(chan *Req, chancap)
	tag := clnt.TagAlloc(user)
	fid := &Fid{Clnt: clnt, Fid: 7, Iounit: 8, walked: true}
	if other {
		go oc.call(clnt)
	}
	got := make([]*Req, 0, n)
	if chancap >= n {
		for i := 0; i < n; i++ {
			vxAssert(tag.Read(fid, offs[i], 2) == nil, "pipelined-request-accepted")
		}
		for i := 0; i < n; i++ {
			got = append(got, <-user)
		}
	} else {
		// a user channel too small to hold every completion: a consumer goroutine drains it
		fin := make(chan bool)
		go func() {
			for i := 0; i < n; i++ {
				got = append(got, <-user)
			}
			fin <- true
		}()
		for i := 0; i < n; i++ {
			vxAssert(tag.Read(fid, offs[i], 2) == nil, "pipelined-request-accepted")
		}
		<-fin
	}
	if other {
		if !vxAwaitCallers([]*vxCaller{oc}) {
			return
		}
		vxAssert(oc.gotMatching(dotu), "ordinary-call-beside-a-tag-gets-its-own-reply")
	}
	vxQuiesce()
	for i, r := range got {
		vxAssert(r != nil && r.Tc != nil && r.Rc != nil, "completion-carries-request-and-reply")
		if r == nil || r.Tc == nil || r.Rc == nil {
			return
		}
		vxAssert(vxAll(r.Tc.Type == Tread, r.Tc.Offset == offs[i]), "completions-arrive-in-issue-order")
		if kinds[i] == vxKindMatch {
			vxAssert(r.Rc.Type == Rread && refBytesEq(r.Rc.Data, []byte{byte(offs[i]), byte(offs[i] >> 8)}), "completion-carries-the-reply-to-its-own-request")
		} else {
			vxAssert(vxAll(r.Rc.Type == Rerror, r.Rc.Error == "no"), "completion-carries-the-reply-to-its-own-request")
			// an Rerror is handed to the issuer as an error with the server's text and number, on this interface too
			e, isErr := r.Err.(*Error)
			vxAssert(isErr && e != nil, "pipelined-completion-of-an-Rerror-carries-an-error")
			if isErr && e != nil {
				vxAssert(e.Err == "no" && (!dotu || e.Errornum == 5), "pipelined-error-carries-the-servers-text-and-number")
			}
		}
		if kinds[i] == vxKindMatch {
			vxAssert(r.Err == nil, "pipelined-completion-of-a-matching-reply-carries-no-error")
		}
	}
	peer.sync()
	// wire: n requests with the Tag's tag, distinct from the ordinary call's tag
	for _, q := range peer.reqs {
		if q.fidOf() == 7 {
			vxAssert(q.f.tag == tag.tag, "pipelined-requests-carry-the-tags-tag")
		} else {
			vxAssert(q.f.tag != tag.tag, "ordinary-call-does-not-share-the-tags-tag")
		}
	}
	clnt.TagFree(tag)
	vxQuiesce()
	cnt, alien := vxTagCensus(clnt, 3)
	vxAssert(!alien && cnt[0] <= 1 && cnt[1] <= 1 && cnt[2] <= 1 && cnt[0]+cnt[1]+cnt[2] == 3, "tags-conserved-after-tagfree")
	vxReach("done")
}

// H09.recycle: request slots and tags are conserved by ReqAlloc/ReqFree for any number of simultaneously
// allocated requests, in particular more than the slot cache holds (16): after n allocations and n frees every
// tag is available again, either in the pool or attached to a cached slot.
func vxH09Recycle(n int, ntags int) {
	nc := vxNewCConn()
	clnt := vxNewClient(nc, 128, false, ntags)
	total := len(clnt.tagpool.id) + len(clnt.reqchan)
	reqs := make([]*Req, n)
	seen := map[uint16]bool{}
	for i := range reqs {
		reqs[i] = clnt.ReqAlloc()
		vxAssert(!seen[reqs[i].tag], "allocated-tags-pairwise-distinct")
		seen[reqs[i].tag] = true
	}
	vxAssert(len(clnt.tagpool.id)+len(clnt.reqchan) == total-n, "allocation-takes-one-tag-each")
	order := vxChoose("free-order", 2)
	for i := range reqs {
		j := i
		if order == 1 {
			j = n - 1 - i
		}
		clnt.ReqFree(reqs[j])
	}
	vxAssert(len(clnt.tagpool.id)+len(clnt.reqchan) == total, "every-tag-available-again")
	// and they can all be handed out again, still distinct
	seen = map[uint16]bool{}
	for i := 0; i < n; i++ {
		r := clnt.ReqAlloc()
		vxAssert(!seen[r.tag], "recycled-tags-pairwise-distinct")
		seen[r.tag] = true
	}
	vxReach("done")
}

// H09.tagburst: more completions under one tag than the Tag's internal queue holds (16) while the consumer is not
// reading: n requests are issued, the server answers all of them at once, and only then does the consumer start to
// drain the user channel. Completions arrive in the order issued, each with the reply to its own request.
func vxH09TagBurst(n int) {
	nc := vxNewCConn()
	clnt := vxNewClient(nc, 128, true, 3)
	var pend []*vxPReq
	peer := vxNewPeer(nc, true, func(p *vxPeer, r *vxPReq) {
		pend = append(pend, r)
		if len(pend) < n {
			return
		}
		for _, q := range pend {
			p.send(q, p.matchingReply(q), 0)
		}
		pend = nil
	})
	user := make(chan *Req)
	tag := clnt.TagAlloc(user)
	fid := &Fid{Clnt: clnt, Fid: 7, Iounit: 8, walked: true}
	for i := 0; i < n; i++ {
		vxAssert(tag.Read(fid, uint64(0x0101*(i+1)), 2) == nil, "pipelined-request-accepted")
	}
	vxQuiesce() // every reply has been received or is waiting behind the full queue
	for i := 0; i < n; i++ {
		r := <-user
		vxAssert(r != nil && r.Tc != nil && r.Rc != nil, "completion-carries-request-and-reply")
		if r == nil || r.Tc == nil || r.Rc == nil {
			return
		}
		off := uint64(0x0101 * (i + 1))
		vxAssert(vxAll(r.Tc.Type == Tread, r.Tc.Offset == off), "completions-arrive-in-issue-order")
		vxAssert(r.Rc.Type == Rread && refBytesEq(r.Rc.Data, []byte{byte(off), byte(off >> 8)}), "completion-carries-the-reply-to-its-own-request")
	}
	peer.sync()
	vxReach("done")
}
