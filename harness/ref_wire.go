package go9p

// Independent reference for the 9P2000 / 9P2000.u wire layouts, written from the protocol text.
// It shares no code with go9p's pack/unpack functions.

const (
	rkU8 = iota
	rkU16
	rkU32
	rkU64
	rkStr
	rkQid
	rkData  // count[4] data
	rkNstr  // n[2] n*str
	rkNqid  // n[2] n*qid
	rkStatN // n[2] stat (the stat itself has its own size[2])
)

type refItem struct {
	kind int
	u    uint64
	s    string
	b    []byte
	q    Qid
	qs   []Qid
	ss   []string
	d    *Dir
	cnt  uint32 // explicit count for rkData (Twrite's count field)
}

func refLE(out []byte, v uint64, n int) []byte {
	for i := 0; i < n; i++ {
		out = append(out, byte(v>>(8*uint(i))))
	}
	return out
}

func refStr(out []byte, s string) []byte {
	out = refLE(out, uint64(len(s)), 2)
	for i := 0; i < len(s); i++ {
		out = append(out, s[i])
	}
	return out
}

func refQid(out []byte, q Qid) []byte {
	out = append(out, q.Type)
	out = refLE(out, uint64(q.Version), 4)
	return refLE(out, q.Path, 8)
}

// refStat: size[2] type[2] dev[4] qid[13] mode[4] atime[4] mtime[4] length[8] name[s] uid[s] gid[s] muid[s]
// (.u: extension[s] n_uid[4] n_gid[4] n_muid[4]); size counts everything after itself.
func refStat(d *Dir, dotu bool) []byte {
	var body []byte
	body = refLE(body, uint64(d.Type), 2)
	body = refLE(body, uint64(d.Dev), 4)
	body = refQid(body, d.Qid)
	body = refLE(body, uint64(d.Mode), 4)
	body = refLE(body, uint64(d.Atime), 4)
	body = refLE(body, uint64(d.Mtime), 4)
	body = refLE(body, d.Length, 8)
	body = refStr(body, d.Name)
	body = refStr(body, d.Uid)
	body = refStr(body, d.Gid)
	body = refStr(body, d.Muid)
	if dotu {
		body = refStr(body, d.Ext)
		body = refLE(body, uint64(d.Uidnum), 4)
		body = refLE(body, uint64(d.Gidnum), 4)
		body = refLE(body, uint64(d.Muidnum), 4)
	}
	var out []byte
	out = refLE(out, uint64(len(body)), 2)
	return append(out, body...)
}

func refEncode(typ uint8, tag uint16, items []refItem, dotu bool) []byte {
	var body []byte
	for _, it := range items {
		switch it.kind {
		case rkU8:
			body = refLE(body, it.u, 1)
		case rkU16:
			body = refLE(body, it.u, 2)
		case rkU32:
			body = refLE(body, it.u, 4)
		case rkU64:
			body = refLE(body, it.u, 8)
		case rkStr:
			body = refStr(body, it.s)
		case rkQid:
			body = refQid(body, it.q)
		case rkData:
			body = refLE(body, uint64(it.cnt), 4)
			body = append(body, it.b...)
		case rkNstr:
			body = refLE(body, uint64(len(it.ss)), 2)
			for _, s := range it.ss {
				body = refStr(body, s)
			}
		case rkNqid:
			body = refLE(body, uint64(len(it.qs)), 2)
			for _, q := range it.qs {
				body = refQid(body, q)
			}
		case rkStatN:
			st := refStat(it.d, dotu)
			body = refLE(body, uint64(len(st)), 2)
			body = append(body, st...)
		}
	}
	var out []byte
	out = refLE(out, uint64(len(body)+7), 4)
	out = append(out, typ)
	out = refLE(out, uint64(tag), 2)
	return append(out, body...)
}

func refU8(v uint8) refItem    { return refItem{kind: rkU8, u: uint64(v)} }
func refU16(v uint16) refItem  { return refItem{kind: rkU16, u: uint64(v)} }
func refU32(v uint32) refItem  { return refItem{kind: rkU32, u: uint64(v)} }
func refU64(v uint64) refItem  { return refItem{kind: rkU64, u: v} }
func refS(s string) refItem    { return refItem{kind: rkStr, s: s} }
func refQ(q Qid) refItem       { return refItem{kind: rkQid, q: q} }
func refDefinedType(t uint8) bool {
	return t >= 100 && t <= 127 && t != 106
}

func refBytesEq(a, b []byte) bool {
	if len(a) != len(b) {
		return false
	}
	var d byte
	for i := range a {
		d |= a[i] ^ b[i]
	}
	return d == 0
}

func refQidEq(a, b Qid) bool { return vxAll(a.Type == b.Type, a.Version == b.Version, a.Path == b.Path) }

func refDirEq(a, b *Dir, dotu bool) bool {
	ok := vxAll(a.Type == b.Type, a.Dev == b.Dev, refQidEq(a.Qid, b.Qid), a.Mode == b.Mode, a.Atime == b.Atime,
		a.Mtime == b.Mtime, a.Length == b.Length, a.Name == b.Name, a.Uid == b.Uid, a.Gid == b.Gid, a.Muid == b.Muid)
	if dotu {
		ok = vxAll(ok, a.Ext == b.Ext, a.Uidnum == b.Uidnum, a.Gidnum == b.Gidnum, a.Muidnum == b.Muidnum)
	}
	return ok
}

// symbolic value builders used by several harnesses
func vxSymQid(name string) Qid {
	return Qid{Type: vxU8(name + ".type"), Version: vxU32(name + ".vers"), Path: vxU64(name + ".path")}
}

func vxSymStr(name string, maxLen int) string {
	n := vxChoose(name+".len", maxLen+1)
	return vxString(name, n)
}

func vxSymDir(name string, maxLen int, dotu bool) *Dir {
	d := new(Dir)
	d.Size = vxU16(name + ".size") // whatever an earlier decode left there: the encoder computes the size itself
	d.Type = vxU16(name + ".type")
	d.Dev = vxU32(name + ".dev")
	d.Qid = vxSymQid(name + ".qid")
	d.Mode = vxU32(name + ".mode")
	d.Atime = vxU32(name + ".atime")
	d.Mtime = vxU32(name + ".mtime")
	d.Length = vxU64(name + ".length")
	d.Name = vxSymStr(name+".name", maxLen)
	d.Uid = vxSymStr(name+".uid", maxLen)
	d.Gid = vxSymStr(name+".gid", maxLen)
	d.Muid = vxSymStr(name+".muid", maxLen)
	if dotu {
		d.Ext = vxSymStr(name+".ext", maxLen)
		d.Uidnum = vxU32(name + ".nuid")
		d.Gidnum = vxU32(name + ".ngid")
		d.Muidnum = vxU32(name + ".nmuid")
	}
	return d
}
