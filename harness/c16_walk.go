package go9p

// C16 — Ufs names and metadata mirror the exported tree.
//
// H16.walk (vxH16Walk): one Twalk (srv.walk + Ufs.Walk + walkPost) over a model tree of depth 3 whose entries
// exist symbolically; 0..nmax elements, each chosen from {"a","b","..","c d","é","..."}; newfid = fid or a fresh one;
// the fid starts at the root or one level down. The reference resolves the names over the harness's own table of
// the tree (not through the model FS) and demands, from the statement:
//   * Rerror iff there is at least one element and the first does not exist; otherwise Rwalk with exactly one
//     qid per existing leading element, each qid agreeing with the object (path = inode, dir/symlink bits);
//   * all elements walked: newfid designates the target (path, Type) and, if newfid != fid, fid is as before;
//   * otherwise both fids are exactly as before (fid: present, same path, same Type; a fresh newfid: absent).
// ".." that would climb above the exported root is C18's subject: the reference does not define it here (either).
//
// H16.meta (vxH16Meta / vxH16Stat): dir2Qid/dir2QidType/dir2Npmode/dir2Dir on a FileInfo whose attribute bits are
// all symbolic, and Tstat through Ufs on a model object with symbolic attributes: directory and symlink bits,
// length, permission bits, mtime, name and qid path agree with the object (vxMetaAgrees); qid.Version, atime and
// owner names are not asserted.

import (
	"os"
	"syscall"
)

type vxRefNode struct {
	key       string // elements below the root joined with "\x00" ("" = the root itself)
	kind      int
	d         *vxDirent
	dirTarget []string // for a symbolic link to a directory: the directory's elements
}

type vxRefTree struct {
	nodes []vxRefNode
}

func vxKey(elems []string) string {
	k := ""
	for i, e := range elems {
		if i > 0 {
			k += "\x00"
		}
		k += e
	}
	return k
}

func (t *vxRefTree) find(elems []string) *vxRefNode {
	k := vxKey(elems)
	for i := range t.nodes {
		if t.nodes[i].key == k {
			return &t.nodes[i]
		}
	}
	return nil
}

// add creates the object in the model and records it in the reference table.
func (t *vxRefTree) add(fs *vxFS, parent []string, name string, kind int, symExists bool) []string {
	p := t.find(parent)
	var in *vxInode
	switch kind {
	case vxKDir:
		in = fs.addDir(p.d.in, name, 0755)
	case vxKFile:
		in = fs.addFile(p.d.in, name, 0644, nil)
	default:
		in = fs.addSymlink(p.d.in, name, "b")
	}
	d := fs.dirent(p.d.in, name)
	if symExists {
		d.exists = vxBool("exists")
	}
	_ = in
	elems := append(append([]string{}, parent...), name)
	t.nodes = append(t.nodes, vxRefNode{key: vxKey(elems), kind: kind, d: d})
	return elems
}

var vxWalkNames = []string{"a", "b", "..", "c d", "\xc3\xa9", "...", "L", "."} // "..." is an ordinary name (it exists nowhere in the tree)

func vxQidAgrees(q Qid, n *vxRefNode) bool {
	return vxAll(q.Path == n.d.in.ino, (q.Type&QTDIR != 0) == (n.kind == vxKDir), (q.Type&QTSYMLINK != 0) == (n.kind == vxKLink))
}

func vxH16Walk(dotu bool, nmax int) {
	k := vxNewUfsKit(dotu, 8192)
	fs := k.fs
	t := &vxRefTree{}
	t.nodes = append(t.nodes, vxRefNode{key: "", kind: vxKDir, d: fs.dirent(fs.root, "r")})
	E := "\xc3\xa9"
	// depth 1
	a := t.add(fs, nil, "a", vxKDir, true)
	t.add(fs, nil, "b", vxKFile, true)
	cd := t.add(fs, nil, "c d", vxKDir, true)
	t.add(fs, nil, E, vxKLink, true) // symlink to the file "b"
	// a symbolic link to the directory "a": walking through it continues in that directory, as the local path does
	lk := t.add(fs, nil, "L", vxKLink, true)
	t.find(lk).d.in.target = "a"
	t.find(lk).dirTarget = a
	// depth 2
	aa := t.add(fs, a, "a", vxKDir, true)
	t.add(fs, a, "b", vxKFile, true)
	t.add(fs, cd, E, vxKDir, true)
	// depth 3
	t.add(fs, aa, "b", vxKFile, true)
	t.add(fs, aa, "c d", vxKDir, true)

	// the fid to walk from
	var start []string
	startPath := vxRoot
	if vxChoose("start", 2) == 1 {
		start = a
		startPath = vxRoot + "/a"
		vxAssume(t.find(a).d.exists)
	}
	f, uf := k.addFid(1, startPath, QTDIR)
	newno := uint32(1)
	if vxChoose("newfid", 2) == 1 {
		newno = 2
	}
	n := vxChoose("n", nmax+1)
	names := make([]string, n)
	for i := range names {
		names[i] = vxWalkNames[vxChoose("name", len(vxWalkNames))]
	}

	// reference resolution
	cur := append([]string{}, start...)  // the names walked so far (the fid's path)
	ccur := append([]string{}, start...) // where that is in the tree (symbolic links to directories resolved)
	var objs []*vxRefNode
	m := 0
	above := false
	viaLink := false
	for _, nm := range names {
		here := t.find(ccur)
		if here.kind == vxKLink && here.dirTarget != nil && t.find(here.dirTarget).d.exists {
			ccur = append([]string{}, here.dirTarget...)
			here = t.find(ccur)
			viaLink = true
		}
		if here.kind != vxKDir {
			break // nothing, not even "..", can be resolved inside a non-directory
		}
		if nm == ".." {
			if viaLink {
				// ".." after a symbolic link: the lexical parent and the target's parent differ; the statement is silent
				above = true
				break
			}
			if len(cur) == 0 {
				above = true
				break
			}
			ccur = ccur[:len(ccur)-1]
			cur = cur[:len(cur)-1]
			objs = append(objs, t.find(ccur))
			m++
			continue
		}
		if nm == "." {
			// "." inside a directory is that directory (the target, after a symbolic link); after a file it is nothing
			objs = append(objs, here)
			m++
			continue
		}
		nx := t.find(append(append([]string{}, ccur...), nm))
		if nx == nil {
			break
		}
		if !nx.d.exists {
			break
		}
		cur = append(cur, nm)
		ccur = append(ccur, nm)
		objs = append(objs, nx)
		m++
	}
	vxObserve("n", n)
	vxObserve("m", m)
	vxObserve("inplace", newno == 1)

	rc := k.run(&Fcall{Type: Twalk, Fid: 1, Newfid: newno, Wname: names}, 256)
	if rc == nil {
		return
	}
	if above {
		vxReach("dotdot-above-root") // C18
		return
	}
	vxAssert(k.fs.mutationsDone() == 0, "walk-makes-no-mutating-call")
	pool := k.conn.fidpool
	if n > 0 && m == 0 {
		vxAssert(rc.Type == Rerror, "first-element-missing-gives-error")
		vxReach("error")
	} else {
		vxAssert(rc.Type == Rwalk, "walk-answered-with-Rwalk")
		if rc.Type != Rwalk {
			return
		}
		vxAssert(len(rc.Wqid) == m, "one-qid-per-existing-leading-element")
		if len(rc.Wqid) != m {
			return
		}
		for i := 0; i < m; i++ {
			vxAssert(vxQidAgrees(rc.Wqid[i], objs[i]), "qid-agrees-with-object")
		}
	}
	target := vxRoot
	for _, e := range cur {
		target += "/" + e
	}
	if m == n {
		// complete: newfid designates the target
		nf := pool[newno]
		vxAssert(nf != nil, "complete-walk-newfid-valid")
		if nf == nil {
			return
		}
		nuf, isU := nf.Aux.(*ufsFid)
		vxAssert(isU, "complete-walk-newfid-has-state")
		if !isU {
			return
		}
		vxAssert(vxSamePath(nuf.path, target), "complete-walk-newfid-designates-target")
		vxAssert(nf.Type&(QTDIR|QTSYMLINK) == vxKindType(t.find(ccur).kind), "complete-walk-newfid-type")
		if newno != 1 {
			vxAssert(pool[1] == f, "complete-walk-fid-still-valid")
			vxAssert(uf.path == startPath, "complete-walk-fid-path-unchanged")
			vxAssert(f.Type == QTDIR, "complete-walk-fid-type-unchanged")
		}
		vxReach("complete")
	} else {
		// partial or failed: both fids exactly as before
		vxObserve("fid-path-kept", uf.path == startPath)
		vxObserve("fid-type-kept", f.Type == QTDIR)
		vxAssert(pool[1] == f, "incomplete-walk-fid-still-valid")
		vxAssert(f.Type == QTDIR, "incomplete-walk-fid-type-unchanged")
		vxAssert(uf.path == startPath, "incomplete-walk-fid-path-unchanged")
		if newno != 1 {
			vxAssert(pool[newno] == nil, "incomplete-walk-newfid-not-created")
		}
		if m > 0 {
			vxReach("partial")
		}
	}
}

// ---- metadata ----

// vxH16Meta: the conversion functions on a FileInfo with every attribute bit symbolic.
func vxH16Meta(dotu bool, namelen int) {
	k := vxNewUfsKit(dotu, 8192)
	name := vxString("name", namelen)
	for j := 0; j < namelen; j++ {
		vxAssume(name[j] != '/')
	}
	in := &vxInode{
		mode:  os.FileMode(vxU32("mode")),
		smode: vxU32("st_mode"),
		size:  int64(vxU64("size")),
		mtime: int64(vxU32("mtime")),
		ino:   vxU64("ino"),
		uid:   uint32(vxChoose("uid", 2)),
		gid:   7,
		rdev:  vxU64("rdev"),
	}
	vxAssume(in.size >= 0)
	fi := vxInfoOf(name, in)
	isDir := in.mode&os.ModeDir != 0
	isLink := in.mode&os.ModeSymlink != 0

	q := dir2Qid(fi)
	vxAssert(q.Path == in.ino, "qid-path-is-inode")
	vxAssert((q.Type&QTDIR != 0) == isDir, "qid-dir-bit")
	vxAssert((q.Type&QTSYMLINK != 0) == isLink, "qid-symlink-bit")
	qt := dir2QidType(fi)
	vxAssert(vxAll((qt&QTDIR != 0) == isDir, (qt&QTSYMLINK != 0) == isLink), "qidtype-bits")
	pm := dir2Npmode(fi, dotu)
	vxAssert(pm&0777 == uint32(in.mode)&0777, "npmode-permission-bits")
	vxAssert((pm&DMDIR != 0) == isDir, "npmode-dir-bit")
	if dotu {
		vxAssert((pm&DMSYMLINK != 0) == isLink, "npmode-symlink-bit")
	}
	// a second object: equal inode numbers <=> equal qid paths
	in2 := *in
	in2.ino = vxU64("ino2")
	q2 := dir2Qid(vxInfoOf(name, &in2))
	vxAssert((q2.Path == q.Path) == (in2.ino == in.ino), "qid-path-distinguishes-objects")

	d, err := dir2Dir(vxRoot+"/"+name, fi, dotu, k.ufs.Upool)
	vxAssert(err == nil && d != nil, "dir2Dir-succeeds")
	if d == nil {
		return
	}
	vxAssert(vxMetaAgrees(d, name, in, dotu), "dir-agrees-with-object")
	vxReach("ok")
}

// vxH16Stat: Tstat through Ufs on a model object.
func vxH16Stat(dotu bool, namelen int) {
	k := vxNewUfsKit(dotu, 8192)
	name := vxString("name", namelen)
	for j := 0; j < namelen; j++ {
		vxAssume(vxAll(name[j] != '/', name[j] != 0))
	}
	vxAssume(vxAll(name != ".", name != ".."))
	var in *vxInode
	kind := vxChoose("kind", 3)
	switch kind {
	case vxKFile:
		in = k.fs.addFile(k.rootDir(), name, 0, nil)
	case vxKDir:
		in = k.fs.addDir(k.rootDir(), name, 0)
	default:
		in = k.fs.addSymlink(k.rootDir(), name, "tgt")
	}
	const typeBits = os.ModeDir | os.ModeSymlink
	in.mode = in.mode&typeBits | os.FileMode(vxU32("modebits"))&^typeBits
	in.smode = in.smode&syscall.S_IFMT | vxU32("st_modebits")&^syscall.S_IFMT
	in.size = int64(vxU64("size"))
	vxAssume(in.size >= 0)
	in.mtime = int64(vxU32("mtime"))
	in.ino = vxU64("ino")
	in.uid = uint32(vxChoose("uid", 2))
	_, uf := k.addFid(1, vxRoot+"/"+name, vxKindType(kind))
	if vxChoose("cached", 2) == 1 {
		// arbitrary valid pre-state: the fid may carry the result of an earlier lstat, of this object as it was
		// then or (after an in-place walk) of another object; a stat must report the object as it is now
		stale := k.fs.newInode(vxKFile, 0600)
		stale.size = int64(vxU32("stale.size"))
		stale.mtime = int64(vxU32("stale.mtime"))
		stale.ino = vxU64("stale.ino")
		uf.st = vxInfoOf("old", stale)
	}
	before := k.fs.snapshot()

	rc := k.run(&Fcall{Type: Tstat, Fid: 1}, 512)
	if rc == nil {
		return
	}
	vxAssert(rc.Type == Rstat, "stat-answered-with-Rstat")
	if rc.Type != Rstat {
		return
	}
	vxAssert(vxMetaAgrees(&rc.Dir, name, in, dotu), "Rstat-agrees-with-object")
	// and the bytes on the wire say the same: size[4] Rstat tag[2] n[2] stat
	if len(rc.Pkt) > 9 {
		d, m, ok := refParseStat(rc.Pkt[9:], dotu)
		vxAssert(ok, "Rstat-record-decodes")
		if ok {
			vxAssert(m == len(rc.Pkt)-9, "Rstat-record-fills-packet")
			vxAssert(vxMetaAgrees(&d, name, in, dotu), "Rstat-wire-record-agrees-with-object")
		}
	}
	vxAssert(vxSameTree(before, k.fs.snapshot()), "stat-changes-nothing")
	vxReach("ok")
}
