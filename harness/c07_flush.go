package go9p

// C07 — Tflush is always answered and truly cancels. End-to-end through Srv.NewConn; the stage at which the
// flush meets its target is a schedule (plus a gate that holds the target inside the implementation).

const (
	vxTagA  = 10
	vxTagF  = 11
	vxTagF2 = 12
	vxTagP  = 13
)

// target: 0 Twalk to a new fid, 1 Topen, 2 Tread, 3 Tattach, 4 Tclunk
// flushop: 0 none, 1 FlushOp that does nothing, 2 FlushOp that calls req.Flush()
// variant: 0 one flush; 1 two flushes of A; 2 flush of the flush; 3 flush of an unknown tag (no target sent);
//          4 a flush that names its own tag (no target sent)
// hold: the implementation parks on A until the harness releases it after the flush was delivered
func vxH07(target int, flushop int, variant int, hold bool, saved bool) {
	kit := vxNewKit(false, flushop != 0, 8192, true)
	kit.ops.flushCall = flushop == 2
	kit.ops.hook = func(op string, req *SrvReq) { vxYield() }
	nc := vxNewNetConn()
	kit.srv.NewConn(nc)
	nc.in <- refEncode(Tversion, NOTAG, []refItem{refU32(8192), refS("9P2000.u")}, true)
	vxQuiesce()
	nc.in <- refEncode(Tattach, 1, []refItem{refU32(0), refU32(NOFID), refS("u0"), refS(""), refU32(0)}, true)
	vxQuiesce()
	if target == 2 {
		nc.in <- refEncode(Topen, 1, []refItem{refU32(0), refU8(OREAD)}, true)
		vxQuiesce()
	}
	nwBefore := len(nc.writes)
	kit.ops.calls = nil
	if hold {
		kit.ops.gate = map[uint16]chan bool{vxTagA: make(chan bool, 1)}
	}
	if saved {
		kit.ops.outcome = vxOutNone
		kit.ops.savedCh = make(chan *SrvReq, 4)
	}
	var a []byte
	var atype uint8
	switch target {
	case 0:
		a = refEncode(Twalk, vxTagA, []refItem{refU32(0), refU32(5), {kind: rkNstr, ss: nil}}, true)
		atype = Twalk
	case 1:
		a = refEncode(Topen, vxTagA, []refItem{refU32(0), refU8(OREAD)}, true)
		atype = Topen
	case 2:
		a = refEncode(Tread, vxTagA, []refItem{refU32(0), refU64(0), refU32(2)}, true)
		atype = Tread
	case 3:
		a = refEncode(Tattach, vxTagA, []refItem{refU32(5), refU32(NOFID), refS("u0"), refS(""), refU32(0)}, true)
		atype = Tattach
	case 4:
		a = refEncode(Tclunk, vxTagA, []refItem{refU32(0)}, true)
		atype = Tclunk
	}
	f := refEncode(Tflush, vxTagF, []refItem{refU16(vxTagA)}, true)
	if variant == 4 {
		f = refEncode(Tflush, vxTagF, []refItem{refU16(vxTagF)}, true)
	}
	nflush := 1
	sameSeg := vxChoose("same-segment", 2) == 1
	switch variant {
	case 3, 4:
		nc.in <- f // nothing outstanding under tag A
	default:
		if sameSeg {
			nc.in <- append(append([]byte{}, a...), f...)
		} else {
			nc.in <- a
			nc.in <- f
		}
		if variant == 1 {
			nc.in <- refEncode(Tflush, vxTagF2, []refItem{refU16(vxTagA)}, true)
			nflush = 2
		}
		if variant == 2 {
			nc.in <- refEncode(Tflush, vxTagF2, []refItem{refU16(vxTagF)}, true)
			nflush = 2
		}
	}
	vxQuiesce()
	if hold {
		kit.ops.gate[vxTagA] <- true
		vxQuiesce()
	}
	if saved {
		// the implementation answers its saved request later, from outside the worker
		kit.ops.outcome = vxOutOK
		for len(kit.ops.savedCh) > 0 {
			r := <-kit.ops.savedCh
			switch r.Tc.Type {
			case Twalk:
				r.RespondRwalk(nil)
			case Topen:
				r.RespondRopen(&kit.ops.qid, 0)
			case Tread:
				r.RespondRread([]byte{1, 2})
			case Tattach:
				r.RespondRattach(&kit.ops.qid)
			case Tclunk:
				r.RespondRclunk()
			}
		}
		vxQuiesce()
	}

	// ---- oracle over the transport log ----
	idx := func(tag uint16) (int, int) { // (position, count) of replies carrying tag
		pos, cnt := -1, 0
		for i := nwBefore; i < len(nc.writes); i++ {
			w := nc.writes[i]
			if len(w) >= 7 && uint16(w[5])|uint16(w[6])<<8 == tag {
				if cnt == 0 {
					pos = i
				}
				cnt++
			}
		}
		return pos, cnt
	}
	pf, cf := idx(vxTagF)
	vxAssert(cf == 1, "exactly-one-Rflush-per-Tflush")
	if cf == 1 {
		vxAssert(nc.writes[pf][4] == Rflush, "Tflush-answered-by-Rflush")
	}
	pa, ca := idx(vxTagA)
	vxAssert(ca <= 1, "at-most-one-reply-to-the-flushed-request")
	if nflush == 2 {
		p2, c2 := idx(vxTagF2)
		vxAssert(c2 == 1, "exactly-one-Rflush-per-Tflush(second)")
		if c2 == 1 {
			vxAssert(nc.writes[p2][4] == Rflush, "second-Tflush-answered-by-Rflush")
			if variant == 1 && ca == 1 {
				vxAssert(pa < p2, "reply-precedes-Rflush(second-flush-of-A)")
			}
			if variant == 2 && cf == 1 {
				vxAssert(pf < p2, "Rflush-of-flushed-flush-precedes-Rflush-of-its-flush")
			}
		}
	}
	if variant < 3 && cf == 1 {
		if ca == 1 {
			vxAssert(pa < pf, "reply-to-flushed-request-precedes-Rflush")
			vxAssert(nc.writes[pa][4] == atype+1 || nc.writes[pa][4] == Rerror, "reply-type")
			vxReach("answered-then-flushed")
		} else {
			// cancelled: never handed to the implementation after the Rflush, no state left behind
			for _, c := range kit.ops.calls {
				if c.tag == vxTagA {
					vxAssert(c.seq < nc.wseq[pf], "cancelled-request-not-handed-to-implementation-after-Rflush")
					// the implementation already holds the request (executing, or parked to be answered later): the
					// server cannot cancel it behind the implementation's back. Without a reply before the Rflush
					// the implementation must have been told through its FlushOp (and have agreed by calling Flush).
					told := false
					for _, r := range kit.ops.flushed {
						told = told || r == c.req
					}
					vxAssert(told, "request-held-by-the-implementation-is-cancelled-only-through-its-FlushOp")
				}
			}
			before := len(nc.writes)
			switch target {
			case 0, 3:
				nc.in <- refEncode(Tstat, vxTagP, []refItem{refU32(5)}, true)
				vxQuiesce()
				vxAssert(len(nc.writes) == before+1, "probe-answered")
				if len(nc.writes) == before+1 {
					vxAssert(nc.writes[before][4] == Rerror, "cancelled-request-left-no-fid")
				}
			case 1:
				// walking from an open fid is refused: the fid must not have become open
				nc.in <- refEncode(Twalk, vxTagP, []refItem{refU32(0), refU32(0), {kind: rkNstr, ss: nil}}, true)
				vxQuiesce()
				vxAssert(len(nc.writes) == before+1, "probe-answered")
				if len(nc.writes) == before+1 {
					vxAssert(nc.writes[before][4] == Rwalk, "cancelled-open-left-fid-unopened")
				}
			}
			vxReach("cancelled")
		}
	}
	if variant >= 3 {
		vxReach("unknown-tag")
	}
}
