package go9p

// C17 — mutations through Ufs equal the corresponding POSIX operations.
//
// With the OS replaced by the model FS, "equals the POSIX operation" is call conformance: the list of mutating /
// opening model calls made by Ufs.Create / Write / Remove / Wstat must be the reference list derived from the
// request (operation, path, flags, permission bits, lengths, times), and nothing else. Every model call may fail
// once (symbolic errno wrapped like the os package wraps it; natural failures such as EEXIST/ENOTEMPTY/ENOENT come
// from the model tree itself). Then:
//   * a failed mutating call => Rerror; in 9P2000.u the Rerror carries the errno of the call that failed;
//   * create / remove answered with Rerror => the tree is exactly as before, and so is the fid (path, handle);
//   * success => the fid designates the created / renamed object.
// Three-valued: several file-type bits at once, device/pipe/socket creates, setuid/setgid bits, chown arguments,
// atime, the order of wstat's sub-operations, and the tree after a wstat that fails half-way are not constrained.
// Environment assumption (stated in the props): once a mutating call has succeeded, lstat/stat of the same tree
// do not fail spuriously (no concurrent interference); open may still fail (mode-0 directory, dangling link).

import (
	"os"
	"syscall"
)

func vxErrnoOf(err error) (syscall.Errno, bool) {
	switch e := err.(type) {
	case syscall.Errno:
		return e, true
	case *os.PathError:
		if n, ok := e.Err.(syscall.Errno); ok {
			return n, true
		}
	case *os.LinkError:
		if n, ok := e.Err.(syscall.Errno); ok {
			return n, true
		}
	}
	return 0, false
}

// vxSigCalls: the calls that matter for conformance (everything except pure queries).
func vxSigCalls(log []vxFSCall) []vxFSCall {
	var out []vxFSCall
	for _, c := range log {
		switch c.op {
		case "lstat", "stat", "readlink", "lookup", "lookupid":
		default:
			out = append(out, c)
		}
		// (same list as vxIsQuery)
	}
	return out
}

// vxFailed returns the calls that returned an error (closing a handle is not an operation on the tree: a failing
// close while a fid is being destroyed obliges nobody to answer Rerror).
func vxFailed(log []vxFSCall) []vxFSCall {
	var out []vxFSCall
	for _, c := range log {
		if c.err != nil && c.op != "close" {
			out = append(out, c)
		}
	}
	return out
}

func vxIsQuery(op string) bool {
	switch op {
	case "lstat", "stat", "readlink", "lookup", "lookupid":
		return true
	}
	return false
}

// vxCheckErrno: the reply to a request during which model calls failed. A failed operation (not a mere query)
// must be answered with Rerror; an Rerror in 9P2000.u must carry the errno of (one of) the failed call(s).
func vxCheckErrno(rc *Fcall, failed []vxFSCall, dotu bool) {
	if len(failed) == 0 {
		return
	}
	vxObserve("failop", failed[0].op)
	vxObserve("injected", failed[0].fault)
	mustErr := false
	for _, c := range failed {
		if !vxIsQuery(c.op) {
			mustErr = true
		}
	}
	if mustErr {
		vxAssert(rc.Type == Rerror, "failed-operation-answered-with-Rerror")
	}
	if rc.Type != Rerror || !dotu {
		return
	}
	match := false
	for _, c := range failed {
		e, ok := vxErrnoOf(c.err)
		if !ok {
			return // a failure without an error number (unknown user name)
		}
		match = vxAny(match, rc.Errornum == uint32(e))
	}
	vxAssert(match, "Rerror-carries-the-errno-of-the-failed-operation")
}

func vxC17Kit(dotu bool, faults int) *vxUfsKit {
	k := vxNewUfsKit(dotu, 8192)
	k.fs.budget = faults
	k.fs.quietStat = true
	return k
}

var vxCreateClass = []string{"file", "dir", "symlink", "link", "any"}

const vxTypeBits = DMDIR | DMSYMLINK | DMLINK | DMNAMEDPIPE | DMDEVICE | DMSOCKET

// vxH17Create: Tcreate in directory /r/d. class selects the kind of object (so that each run stays small):
// 0 plain file, 1 directory, 2 symlink, 3 hard link, 4 anything (all perm bits free; only the generic rules).
func vxH17Create(dotu bool, class int, faults int, namelen int) {
	k := vxC17Kit(dotu, faults)
	fs := k.fs
	root := k.rootDir()
	d := fs.addDir(root, "d", 0755)
	fs.addFile(root, "f", 0644, nil)
	fs.addFile(d, "f", 0644, nil) // an existing name in the directory
	fs.addDir(d, "d", 0755)
	f, uf := k.addFid(1, vxRoot+"/d", QTDIR)
	k.addFid(5, vxRoot+"/f", 0) // source for hard links

	name := vxString("name", namelen)
	for j := 0; j < namelen; j++ {
		vxAssume(vxAll(name[j] != '/', name[j] != 0))
	}
	vxAssume(vxAll(name != ".", name != "..")) // names with '/' or dots are C18's subject
	perm := vxU32("perm")
	mode := vxU8("mode")
	ext := ""
	switch class {
	case 0:
		vxAssume(perm&vxTypeBits == 0)
	case 1:
		vxAssume(perm&vxTypeBits == DMDIR)
	case 2:
		vxAssume(perm&vxTypeBits == DMSYMLINK)
		switch vxChoose("target", 3) {
		case 0:
			ext = "f" // exists (relative to the link's directory)
		case 1:
			ext = "nothere" // dangling
		case 2:
			ext = vxString("ext", 2)
		}
	case 3:
		vxAssume(perm&vxTypeBits == DMLINK)
		ext = []string{"5", "9", "x", ""}[vxChoose("ext", 4)]
	}
	target := vxRoot + "/d/" + name
	before := fs.snapshot()
	vxObserve("class", class)

	tc := &Fcall{Type: Tcreate, Fid: 1, Name: name, Perm: perm, Mode: mode, Ext: ext}
	rc := k.run(tc, 512)
	if rc == nil {
		return
	}
	sig := vxSigCalls(fs.log)
	failed := vxFailed(fs.log)
	after := fs.snapshot()
	vxObserve("nsig", len(sig))

	// ---- generic rules, for every perm/mode ----
	defer vxCheckErrno(rc, failed, dotu) // last, so that a wrong errno does not hide the other checks of this path
	if rc.Type == Rerror {
		vxObserve("mutations-before-error", fs.mutationsDone())
		if len(sig) > 0 {
			vxObserve("@first-call", sig[0].op)
			vxObserve("@last-call", sig[len(sig)-1].op)
		}
		vxAssert(vxSameTree(before, after), "create-"+vxCreateClass[class]+"-Rerror-implies-tree-unchanged")
		vxAssert(uf.path == vxRoot+"/d", "Rerror-implies-fid-path-unchanged")
		vxAssert(uf.file == nil, "Rerror-implies-fid-not-opened")
		vxAssert(!f.opened, "Rerror-implies-fid-not-marked-open")
		vxReach("rerror")
	} else {
		vxAssert(rc.Type == Rcreate, "reply-type")
		if rc.Type != Rcreate {
			return
		}
		// the fid designates the created object and is open on it
		r := fs.resolve(target, false)
		vxAssert(r.errno == 0, "created-object-exists")
		vxAssert(vxSamePath(uf.path, target), "fid-designates-created-object")
		vxAssert(f.opened, "fid-open-after-create")
		vxAssert(f.Omode == mode, "fid-open-mode")
		vxAssert(uf.file != nil, "fid-has-handle")
		if r.errno == 0 {
			vxAssert(rc.Qid.Path == r.in.ino, "Rcreate-qid-is-created-object")
			vxAssert(vxAll((rc.Qid.Type&QTDIR != 0) == (r.in.kind == vxKDir), (rc.Qid.Type&QTSYMLINK != 0) == (r.in.kind == vxKLink)), "Rcreate-qid-type")
			vxAssert(f.Type&(QTDIR|QTSYMLINK) == vxKindType(r.in.kind), "fid-type-after-create")
			if h := fs.handle(uf.file); h != nil {
				ro := fs.resolve(target, true)
				vxAssert(ro.errno == 0 && h.in == ro.in, "handle-is-on-created-object")
			}
		}
		vxReach("rcreate")
	}

	// ---- call conformance, where the statement defines the operation ----
	refused := vxAny(vxAll(perm&DMDIR != 0, mode != OREAD), vxAll(perm&(vxTypeBits&^DMDIR) != 0, !dotu))
	if refused {
		// refused by the protocol rules (C05): either reply, but nothing may have been done
		vxAssert(len(sig) == 0, "refused-create-touches-nothing")
		return
	}
	flags := omode2ref(mode)
	var want []vxFSCall
	switch class {
	case 0:
		want = []vxFSCall{{op: "open", path: target, flags: flags | os.O_CREATE, mode: perm & 0777}}
	case 1:
		want = []vxFSCall{{op: "mkdir", path: target, mode: perm & 0777}, {op: "open", path: target, flags: flags}}
	case 2:
		want = []vxFSCall{{op: "symlink", path: target, path2: ext}, {op: "open", path: target, flags: flags}}
	case 3:
		if ext != "5" {
			// not the number of a valid fid: nothing can be linked
			vxAssert(rc.Type == Rerror, "bad-link-source-gives-error")
			vxAssert(len(sig) == 0, "bad-link-source-touches-nothing")
			return
		}
		want = []vxFSCall{{op: "link", path: target, path2: vxRoot + "/f"}, {op: "open", path: target, flags: flags}}
	default:
		return
	}
	// the calls made must be a prefix of the reference list, cut only after a failed call
	vxAssert(len(sig) <= len(want), "more-operations-than-the-POSIX-equivalent")
	for i := 0; i < len(sig) && i < len(want); i++ {
		g, w := sig[i], want[i]
		vxAssert(g.op == w.op, "operation-kind")
		if g.op != w.op {
			return
		}
		vxAssert(vxSamePath(g.path, w.path), "operation-path")
		switch g.op {
		case "open":
			vxAssert(g.flags == w.flags, "open-flags")
			if w.flags&os.O_CREATE != 0 {
				vxAssert(g.mode&0777 == w.mode, "create-permission-bits")
				vxObserve("setid-requested", perm&(DMSETUID|DMSETGID) != 0)
				vxObserve("setid-passed", os.FileMode(g.mode)&(os.ModeSetuid|os.ModeSetgid) != 0)
			}
		case "mkdir":
			vxAssert(g.mode&0777 == w.mode, "mkdir-permission-bits")
		case "symlink":
			vxAssert(g.path2 == w.path2, "symlink-target")
		case "link":
			vxAssert(vxSamePath(g.path2, w.path2), "link-source")
		}
		if i < len(sig)-1 {
			vxAssert(g.err == nil, "continued-after-a-failed-operation")
		}
	}
	if rc.Type == Rcreate {
		vxAssert(len(sig) == len(want), "operations-missing")
		if len(sig) > 0 {
			vxAssert(sig[len(sig)-1].err == nil, "success-although-an-operation-failed")
		}
	}
	vxReach("conformance")
}

// vxH17Write: Twrite with a failing WriteAt.
func vxH17Write(dotu bool, faults int, N int) {
	k := vxC17Kit(dotu, faults)
	fs := k.fs
	in := fs.addFile(k.rootDir(), "f", 0644, vxBytes("file", 2))
	f, _ := k.addFid(1, vxRoot+"/f", 0)
	omode := vxU8("omode")
	vxAssume(vxAny(omode&3 == OWRITE, omode&3 == ORDWR))
	k.openFid(f, omode)
	off := vxU64("offset")
	data := vxBytes("data", N)
	sent := make([]byte, N)
	copy(sent, data)
	before := fs.snapshot()
	rc := k.run(&Fcall{Type: Twrite, Fid: 1, Offset: off, Count: uint32(N), Data: data}, 512)
	if rc == nil {
		return
	}
	sig := vxSigCalls(fs.log)
	failed := vxFailed(fs.log)
	defer vxCheckErrno(rc, failed, dotu) // last, so that a wrong errno does not hide the other checks of this path
	if rc.Type == Rerror {
		vxAssert(vxSameTree(before, fs.snapshot()), "failed-write-changes-nothing")
		vxReach("rerror")
	} else {
		vxAssert(rc.Type == Rwrite, "reply-type")
		vxAssert(len(sig) == 1, "operations-missing")
		vxAssert(rc.Count == uint32(N), "Rwrite-count")
		vxReach("rwrite")
	}
	vxAssert(len(sig) <= 1, "more-operations-than-the-POSIX-equivalent")
	if len(sig) == 1 {
		c := sig[0]
		vxAssert(c.op == "writeat", "operation-kind")
		vxAssert(c.a == int64(off), "WriteAt-offset")
		vxAssert(len(c.data) == N, "WriteAt-length")
		if len(c.data) == N {
			vxAssert(refBytesEq(c.data, sent), "WriteAt-data")
		}
		if rc.Type == Rwrite {
			vxAssert(c.err == nil, "success-although-an-operation-failed")
		}
	}
	_ = in
}

// vxH17Remove: Tremove of a file, an empty directory, a non-empty directory, a symlink.
func vxH17Remove(dotu bool, faults int) {
	k := vxC17Kit(dotu, faults)
	fs := k.fs
	root := k.rootDir()
	d := fs.addDir(root, "d", 0755)
	fs.addFile(d, "x", 0644, vxBytes("x", 1))
	fs.addDir(root, "e", 0755)
	fs.addFile(root, "f", 0644, vxBytes("f", 2))
	fs.addSymlink(root, "l", "f")
	which := vxChoose("object", 4)
	name := []string{"f", "e", "d", "l"}[which]
	qt := []uint8{0, QTDIR, QTDIR, QTSYMLINK}[which]
	p := vxRoot + "/" + name
	f, uf := k.addFid(1, p, qt)
	if vxBool("replaced-since-the-fid-was-walked") {
		// the name was removed and created again as the other kind of object (by another fid or another process)
		// after this fid was walked to it: what the fid remembers about it is stale, the path is what counts
		f.Type ^= QTDIR
	}
	if vxBool("opened") {
		k.openFid(f, OREAD)
	}
	before := fs.snapshot()
	vxObserve("object", name)
	rc := k.run(&Fcall{Type: Tremove, Fid: 1}, 512)
	if rc == nil {
		return
	}
	sig := vxSigCalls(fs.log)
	failed := vxFailed(fs.log)
	after := fs.snapshot()
	defer vxCheckErrno(rc, failed, dotu) // last, so that a wrong errno does not hide the other checks of this path
	// the handle of an open fid is closed when the fid goes away; that is not a change of the tree
	var ops []vxFSCall
	for _, c := range sig {
		if c.op != "close" {
			ops = append(ops, c)
		}
	}
	if rc.Type == Rerror {
		vxAssert(vxSameTree(before, after), "remove-Rerror-implies-tree-unchanged")
		vxAssert(uf.path == p, "Rerror-implies-fid-path-unchanged")
		vxReach("rerror")
	} else {
		vxAssert(rc.Type == Rremove, "reply-type")
		vxAssert(len(ops) == 1, "operations-missing")
		r := fs.resolve(p, false)
		vxAssert(r.errno == vxENOENT, "removed-object-is-gone")
		vxAssert(len(after) == len(before)-1, "exactly-one-name-removed")
		vxReach("rremove")
	}
	if fs.budget == faults && which != 2 {
		vxAssert(rc.Type == Rremove, "remove-succeeds-where-remove(3)-succeeds")
	}
	vxAssert(len(ops) <= 1, "more-operations-than-the-POSIX-equivalent")
	if len(ops) == 1 {
		vxAssert(ops[0].op == "remove" || ops[0].op == "unlink" || ops[0].op == "rmdir", "operation-kind")
		vxAssert(vxSamePath(ops[0].path, p), "operation-path")
		if rc.Type == Rremove {
			vxAssert(ops[0].err == nil, "success-although-an-operation-failed")
		}
	}
	if which == 2 {
		vxAssert(rc.Type == Rerror, "non-empty-directory-not-removed")
	}
}

// vxH17Wstat: Twstat on the file /r/d/f with symbolic Dir fields.
func vxH17Wstat(dotu bool, faults int) {
	k := vxC17Kit(dotu, faults)
	fs := k.fs
	root := k.rootDir()
	d := fs.addDir(root, "d", 0755)
	in := fs.addFile(d, "f", 0644, nil)
	in.mtime = int64(vxU32("cur.mtime"))
	in.atime = int64(vxU32("cur.atime"))
	in.size = 5
	oldMtime := in.mtime
	p := vxRoot + "/d/f"
	f1, uf := k.addFid(1, p, 0)
	// the fid may be open, in any mode: wstat works on the file, not through the descriptor's access rights
	if om := vxChoose("fid-open", 4); om > 0 {
		k.openFid(f1, []uint8{OREAD, OWRITE, ORDWR}[om-1])
	}

	var dir Dir
	dir.Mode = vxU32("mode")
	dir.Length = vxU64("length")
	dir.Mtime = vxU32("mtime")
	dir.Atime = vxU32("atime")
	dest := ""
	switch vxChoose("name", 3) {
	case 1:
		dir.Name = "n"
		dest = vxRoot + "/d/n" // same directory
	case 2:
		dir.Name = "/n"
		dest = vxRoot + "/n" // names starting with '/' are relative to the exported root
	}
	idsGiven := false
	if dotu {
		dir.Uidnum = vxU32("uidnum")
		dir.Gidnum = vxU32("gidnum")
		idsGiven = vxAny(dir.Uidnum != NOUID, dir.Gidnum != NOUID)
	} else {
		dir.Uid = []string{"", "u1", "zz"}[vxChoose("uid", 3)]
		dir.Uidnum, dir.Gidnum = NOUID, NOUID
		idsGiven = dir.Uid != ""
	}
	vxObserve("rename", dir.Name)
	rc := k.run(&Fcall{Type: Twstat, Fid: 1, Dir: dir}, 512)
	if rc == nil {
		return
	}
	sig := vxSigCalls(fs.log)
	failed := vxFailed(fs.log)
	defer vxCheckErrno(rc, failed, dotu) // last, so that a wrong errno does not hide the other checks of this path
	if fs.budget == faults && dir.Length != 0xFFFFFFFFFFFFFFFF && int64(dir.Length) >= 0 && dir.Mode == 0xFFFFFFFF && dir.Name == "" &&
		dir.Mtime == 0xFFFFFFFF && dir.Atime == 0xFFFFFFFF && !idsGiven {
		// a pure length change on a writable file: truncate(2) succeeds
		vxAssert(rc.Type == Rwstat, "truncate-succeeds-where-truncate(2)-succeeds")
		vxAssert(in.size == int64(dir.Length), "file-has-the-requested-length")
		vxReach("pure-truncate")
	}
	if rc.Type == Rerror {
		// the tree after a wstat that fails half-way: the statement is silent. But every operation that was
		// attempted, including the failing one, must be the requested change on the right object: after the
		// rename step the object lives at the destination.
		ra := -1
		for i, c := range sig {
			if c.op == "rename" && c.err == nil {
				ra = i
			}
		}
		for i, c := range sig {
			obj := p
			if ra >= 0 && i > ra {
				obj = dest
			}
			switch c.op {
			case "chmod", "chown", "truncate", "chtimes":
				vxAssert(vxSamePath(c.path, obj), "failed-wstat:"+c.op+"-applied-to-the-fid's-object")
			}
		}
		vxReach("rerror")
		return
	}
	vxAssert(rc.Type == Rwstat, "reply-type")
	for _, c := range sig {
		vxAssert(c.err == nil, "success-although-an-operation-failed")
	}
	// every requested change was made exactly once, on the object, with the requested value; nothing else
	renameAt := -1
	for i, c := range sig {
		if c.op == "rename" {
			renameAt = i
		}
	}
	nchmod, nchown, nrename, ntrunc, ntimes := 0, 0, 0, 0, 0
	for i, c := range sig {
		obj := p
		if renameAt >= 0 && i > renameAt {
			obj = dest
		}
		switch c.op {
		case "chmod":
			nchmod++
			vxAssert(vxSamePath(c.path, obj), "chmod-path")
			vxAssert(c.mode&0777 == dir.Mode&0777, "chmod-permission-bits")
		case "chown":
			nchown++
			vxAssert(vxSamePath(c.path, obj), "chown-path")
		case "rename":
			nrename++
			vxAssert(vxSamePath(c.path, p), "rename-source")
			vxAssert(vxSamePath(c.path2, dest), "rename-destination")
		case "truncate":
			ntrunc++
			vxAssert(vxSamePath(c.path, obj), "truncate-path")
			vxAssert(c.a == int64(dir.Length), "truncate-length")
		case "chtimes":
			ntimes++
			vxAssert(vxSamePath(c.path, obj), "chtimes-path")
			if dir.Mtime != 0xFFFFFFFF {
				vxAssert(c.b == int64(dir.Mtime), "chtimes-sets-requested-mtime")
			} else {
				vxAssert(c.b == oldMtime, "chtimes-preserves-untouched-mtime")
			}
			vxObserve("atime-preserved", vxAny(dir.Atime != 0xFFFFFFFF, c.a == in.atime))
		default:
			vxAssert(false, "operation-not-part-of-wstat")
		}
	}
	wantChmod, wantRename, wantTrunc, wantTimes := 0, 0, 0, 0
	if dir.Mode != 0xFFFFFFFF {
		wantChmod = 1
	}
	if dir.Name != "" {
		wantRename = 1
	}
	if dir.Length != 0xFFFFFFFFFFFFFFFF {
		wantTrunc = 1
	}
	if vxAny(dir.Mtime != 0xFFFFFFFF, dir.Atime != 0xFFFFFFFF) {
		wantTimes = 1
	}
	vxAssert(nchmod == wantChmod, "chmod-iff-mode-given")
	vxAssert(nrename == wantRename, "rename-iff-name-given")
	vxAssert(ntrunc == wantTrunc, "truncate-iff-length-given")
	vxAssert(ntimes == wantTimes, "chtimes-iff-a-time-given")
	if !idsGiven {
		vxAssert(nchown == 0, "chown-without-ids")
	}
	vxAssert(nchown <= 1, "chown-at-most-once")
	if wantRename == 1 {
		vxAssert(vxSamePath(uf.path, dest), "fid-designates-renamed-object")
		r := fs.resolve(dest, false)
		vxAssert(r.errno == 0 && r.in == in, "renamed-object-is-at-destination")
	} else {
		vxAssert(uf.path == p, "fid-path-unchanged-without-rename")
	}
	vxReach("rwstat")
}

// vxH17Rename: wstat used only to rename, onto free and occupied names. The outcome must be the one rename(2)
// gives (reference table below, written from POSIX): a file replaces a file, a directory replaces an empty
// directory, file onto directory is EISDIR, directory onto file ENOTDIR, directory onto a non-empty directory
// ENOTEMPTY/EEXIST; a refused rename changes nothing.
func vxH17Rename(dotu bool) {
	k := vxC17Kit(dotu, 0)
	fs := k.fs
	root := k.rootDir()
	d := fs.addDir(root, "d", 0755)
	objIsDir := vxChoose("object", 2) == 1
	var obj *vxInode
	qt := uint8(0)
	if objIsDir {
		obj = fs.addDir(d, "o", 0755)
		qt = QTDIR
	} else {
		obj = fs.addFile(d, "o", 0644, []byte{1})
	}
	destKind := vxChoose("dest", 4) // 0 free, 1 file, 2 empty directory, 3 non-empty directory
	var old *vxInode
	switch destKind {
	case 1:
		old = fs.addFile(d, "n", 0644, []byte{2, 2})
	case 2:
		old = fs.addDir(d, "n", 0755)
	case 3:
		old = fs.addDir(d, "n", 0755)
		fs.addFile(old, "x", 0644, nil)
	}
	p, dest := vxRoot+"/d/o", vxRoot+"/d/n"
	_, uf := k.addFid(1, p, qt)
	var dir Dir
	dir.Mode, dir.Length, dir.Mtime, dir.Atime = 0xFFFFFFFF, 0xFFFFFFFFFFFFFFFF, 0xFFFFFFFF, 0xFFFFFFFF
	dir.Uidnum, dir.Gidnum = NOUID, NOUID
	dir.Name = "n"
	vxObserve("@object-is-dir", objIsDir)
	vxObserve("@dest", destKind)
	before := fs.snapshot()
	rc := k.run(&Fcall{Type: Twstat, Fid: 1, Dir: dir}, 512)
	if rc == nil {
		return
	}
	// POSIX rename(2)
	ok := false
	switch {
	case destKind == 0:
		ok = true
	case destKind == 1:
		ok = !objIsDir // file over file; directory over file: ENOTDIR
	case destKind == 2:
		ok = objIsDir // directory over empty directory; file over directory: EISDIR
	}
	if ok {
		vxAssert(rc.Type == Rwstat, "rename-succeeds-where-rename(2)-does")
		if rc.Type == Rwstat {
			r := fs.resolve(dest, false)
			vxAssert(r.errno == 0 && r.in == obj, "renamed-object-is-at-destination")
			vxAssert(fs.resolve(p, false).errno != 0, "old-name-is-gone")
			vxAssert(vxSamePath(uf.path, dest), "fid-designates-renamed-object")
			vxReach("renamed")
		}
	} else {
		vxAssert(rc.Type == Rerror, "rename-refused-where-rename(2)-refuses")
		vxAssert(vxSameTree(before, fs.snapshot()), "refused-rename-changes-nothing")
		vxAssert(uf.path == p, "refused-rename-leaves-fid")
		vxReach("refused")
	}
	_ = old
}
