package go9p

// C10 — client calls fail promptly, never hang, when the connection fails.
//
// H10.cut: n callers issue calls concurrently on one real client. The scripted peer answers the requests it receives,
// in arrival order, with the matching reply — until the failure, which is tied to the a-th request arrival
// (a = 0: the harness main goroutine injects it itself, at a schedule-chosen moment while callers are entering
// Rpc). So the callers whose requests arrived before the a-th are "answered before the failure", all others are
// outstanding or still entering Rpc when it happens; which caller is which is decided by the schedule.
//
// Failure modes:
//   cut        the reply stream ends after b bytes of the a-th reply (b < its length; every byte offset of the
//              stream is (a, b) for some a, b), then end of stream
//   garbage    instead of the a-th reply: a frame whose type byte is not a 9P message type
//   short      ... a frame announcing size 5 (< 7)
//   unknowntag ... a well-formed reply carrying a tag that no outstanding request has
//   oversize   ... a frame announcing a size larger than the client's receive buffer (8 x msize), followed by
//              enough bytes to fill that buffer, then end of stream
//   unmount    Clnt.Unmount() is called from another goroutine
//   writefail  the transport refuses the a-th request (Write returns an error)
//   stall      the peer stops reading: the Write of the a-th request blocks until the connection is closed
//              locally, and at that moment a garbage frame arrives
//
// Oracle (in the final quiescent state):
//   * every call has returned (otherwise: HANG finding listing where each goroutine is parked);
//   * a caller whose reply was not completely delivered returns an error and no data;
//   * a caller whose complete reply precedes the failure in the stream (cut/garbage/short/unknowntag/oversize)
//     gets exactly its own payload; for unmount/writefail the statement does not say whether a reply that was
//     queued but possibly not yet read counts as "received": either outcome is accepted, success must be exact;
//   * a call made afterwards returns an error (and returns).

const (
	vxFailCut        = 0
	vxFailGarbage    = 1
	vxFailShort      = 2
	vxFailUnknownTag = 3
	vxFailOversize   = 4
	vxFailUnmount    = 5
	vxFailWrite      = 6
	vxFailStall      = 7 // the peer stops reading (the a-th request's Write blocks until Close) and sends a garbage frame
	vxFailStallLib   = 8 // the same on a client built by the library's own constructor NewClnt (65535 tags)
)

const vxH10Msize = 32

func vxH10Cut(n int, a int, mode int, b int, dotu bool) {
	nc := vxNewCConn()
	if b < 0 {
		// every cut position inside the a-th reply (Rread with two data bytes: 13 bytes)
		b = vxChoose("cutbyte", 13)
	}
	ntags := 4
	if mode == vxFailStallLib {
		ntags = 0
		mode = vxFailStall
	}
	clnt := vxNewClient(nc, vxH10Msize, dotu, ntags)
	callers := make([]*vxCaller, n+1)
	for i := range callers {
		callers[i] = vxNewCaller(clnt, i, vxOpRead)
	}
	trig := make(chan bool, 1)
	if mode == vxFailUnmount {
		go func() {
			<-trig
			clnt.Unmount()
		}()
	}
	failed := false
	fail := func(p *vxPeer, r *vxPReq) {
		failed = true
		p.stop()
		switch mode {
		case vxFailCut:
			if r != nil {
				pkt := p.matchingReply(r)
				if b < len(pkt) {
					p.nc.push(pkt[:b])
				} else {
					p.nc.push(pkt[:len(pkt)-1])
				}
			}
			p.nc.hangup()
		case vxFailGarbage:
			p.nc.push([]byte{9, 0, 0, 0, 99, 1, 0, 0, 0})
		case vxFailShort:
			p.nc.push([]byte{5, 0, 0, 0, Rclunk, 1, 0})
		case vxFailUnknownTag:
			p.nc.push(refEncode(Rclunk, 0x7777, nil, dotu))
		case vxFailOversize:
			big := make([]byte, 8*vxH10Msize)
			big[0] = 1
			big[1] = 1 // size 257 = 8*msize + 1
			big[4] = Rread
			p.nc.push(big)
			p.nc.hangup()
		case vxFailUnmount:
			trig <- true
		}
	}
	if mode == vxFailWrite && a == 1 {
		nc.failWriteAt = 0
	}
	if mode == vxFailStall {
		nc.stallWrite = a - 1
		nc.onStall = func() {
			failed = true
			nc.push([]byte{9, 0, 0, 0, 99, 1, 0, 0, 0})
		}
	}
	peer := vxNewPeer(nc, dotu, func(p *vxPeer, r *vxPReq) {
		if r.idx+1 < a {
			p.send(r, p.matchingReply(r), 0)
			if mode == vxFailWrite && r.idx+2 == a {
				// the next request is refused by the transport
				p.nc.failWriteAt = len(p.wire)
			}
			return
		}
		if r.idx+1 == a {
			fail(p, r)
		}
	})
	for i := 0; i < n; i++ {
		go callers[i].call(clnt)
	}
	if a == 0 {
		// the failure comes from outside, at any moment relative to the callers
		vxYield()
		fail(peer, nil)
	}
	if !vxAwaitCallers(callers[:n]) {
		return
	}
	peer.sync()
	for i := 0; i < n; i++ {
		c := callers[i]
		rq := peer.findReq(c.fid.Fid, 0)
		answered := rq != nil && rq.answered
		switch {
		case !answered:
			vxAssert(c.err != nil, "no-success-without-a-complete-reply")
			vxAssert(c.noPayload(), "failed-call-returns-no-data")
		case mode == vxFailUnmount || mode == vxFailWrite || mode == vxFailStall:
			// either: the reply was queued before the local failure, the statement does not say it must be seen
			if c.err == nil {
				vxAssert(c.gotMatching(dotu), "successful-call-returns-exactly-its-own-payload")
			} else {
				vxAssert(c.noPayload(), "failed-call-returns-no-data")
			}
		default:
			vxAssert(c.gotMatching(dotu), "reply-completely-received-before-the-failure-is-delivered")
		}
	}
	if mode == vxFailWrite && a > n {
		// no request was refused: nothing failed
		vxReach("nofailure")
		return
	}
	if !failed && mode != vxFailWrite {
		// fewer than a requests reached the wire (cannot happen: every caller sends exactly one)
		vxAssert(false, "harness-failure-not-injected")
		return
	}
	// afterwards: a new call fails, and returns
	last := callers[n]
	last.call(clnt)
	vxAssert(last.err != nil, "later-call-returns-an-error")
	vxAssert(last.noPayload(), "failed-call-returns-no-data")
	vxReach("done")
}
