package go9p

// H11.ufs: "the Unix file server closes every file it opened for that connection". A 9P2000.u session on the model
// file system opens files through several fids, makes a hard link (Tcreate with DMLINK, whose ext names another
// fid) that succeeds or fails in link(2), then hangs up: every descriptor the model handed out is closed exactly
// once, and the connection is gone.
func vxH11Ufs() {
	k := vxNewUfsKit(true, 8192)
	root := k.rootDir()
	k.fs.addFile(root, "f", 0644, []byte{1, 2, 3})
	k.fs.addDir(root, "d", 0755)
	nc := vxNewNetConn()
	k.ufs.NewConn(nc)
	send := func(p []byte) {
		nc.in <- p
		vxQuiesce()
	}
	send(refEncode(Tversion, NOTAG, []refItem{refU32(8192), refS("9P2000.u")}, true))
	send(refEncode(Tattach, 1, []refItem{refU32(0), refU32(NOFID), refS(""), refS(""), refU32(0)}, true))
	send(refEncode(Twalk, 1, []refItem{refU32(0), refU32(1), {kind: rkNstr, ss: nil}}, true))
	send(refEncode(Twalk, 1, []refItem{refU32(0), refU32(2), {kind: rkNstr, ss: []string{"f"}}}, true))
	send(refEncode(Topen, 1, []refItem{refU32(2), refU8(OREAD)}, true))
	send(refEncode(Twalk, 1, []refItem{refU32(0), refU32(3), {kind: rkNstr, ss: []string{"d"}}}, true))
	send(refEncode(Topen, 1, []refItem{refU32(3), refU8(OREAD)}, true))
	fr, ok := vxFrames(nc.wire)
	good := ok && len(fr) == 7
	for _, f := range fr {
		good = good && f.typ != Rerror
	}
	vxAssert(good, "prologue-answered")
	if !good {
		return
	}
	// the directory is listed twice from the start (each rewind reopens it)
	nrd := vxChoose("directory-listed-from-offset-0", 3)
	for i := 0; i < nrd; i++ {
		send(refEncode(Tread, 3, []refItem{refU32(3), refU64(0), refU32(500)}, true))
	}
	// hard link to fid 2's file under a name that exists (link(2) fails) or is free (succeeds), or to an unknown fid
	name := []string{"f", "g"}[vxChoose("link-name", 2)]
	target := []string{"2", "9"}[vxChoose("link-target-fid", 2)]
	send(refEncode(Tcreate, 2, []refItem{refU32(1), refS(name), refU32(DMLINK | 0644), refU8(OREAD), refS(target)}, true))
	fr, ok = vxFrames(nc.wire)
	vxAssert(ok && len(fr) == 8+nrd, "create-answered")
	if ok && len(fr) == 8+nrd {
		vxObserve("create-reply", int(fr[7+nrd].typ))
		if name == "f" || target == "9" {
			vxAssert(fr[7+nrd].typ == Rerror, "link-onto-an-existing-name-or-to-an-unknown-fid-refused")
		}
	}
	opened := 0
	for _, h := range k.fs.files {
		if !h.closed {
			opened++
		}
	}
	vxAssert(opened >= 2, "harness-files-open-at-the-hang-up")
	nc.hangup()
	vxQuiesce()
	for _, h := range k.fs.files {
		vxAssert(h.closed, "every-file-opened-for-the-connection-is-closed")
	}
	for _, c := range k.fs.log {
		if c.op == "close" {
			vxAssert(c.err == nil, "no-file-closed-twice")
		}
	}
	alive := false
	for range k.ufs.conns {
		alive = true
	}
	vxAssert(!alive, "dropped-connection-unregistered")
	if vxSymbolic() {
		vxAssert(vxParkedInLib() == 0, "every-goroutine-of-the-dropped-connection-ended")
	}
	vxReach("done")
}
