package go9p

// C12 — version / msize negotiation is honoured in both directions.
//
//   H12.version  one Tversion through Process(): Rversion.msize = min(client, server); refusal iff the client's msize
//                cannot carry an I/O header; 9P2000.u iff both sides asked for it, plain 9P2000 otherwise; the
//                connection's msize/dialect follow.
//   H12.frame    one receive step of a real connection: an announced frame size above the (negotiated) msize or below
//                a header drops the connection; nothing is executed, nothing is answered, nothing big is allocated.
//   H12.bound    after a negotiation that lowered msize: (L1) the reply buffer handed to a request is no longer than
//                the negotiated msize, whatever was recycled from before the negotiation; (wire) no frame longer than
//                the negotiated msize is sent; (L3) the sender writes exactly the packet, also with short writes.
//   H12.dialect  Rstat / Rerror bytes equal the independent reference encoding for the connection's dialect.
//   H12.client   Connect against a scripted peer: the client adopts min(msize) and the dialect both asked for.

import "errors"

func vxH12Attach(tag uint16, dotu bool) []byte {
	items := []refItem{refU32(0), refU32(NOFID), refS("u0"), refS("")}
	if dotu {
		items = append(items, refU32(0))
	}
	return refEncode(Tattach, tag, items, dotu)
}

func vxH12LE32(b []byte) uint32 {
	return uint32(b[0]) | uint32(b[1])<<8 | uint32(b[2])<<16 | uint32(b[3])<<24
}

// ---------------------------------------------------------------------------------------------------------------
// H12.version
func vxH12Version(verKind int) {
	smsize := vxU32("srvmsize")
	vxAssume(smsize >= IOHDRSZ) // Srv.Start replaces anything smaller by the default
	sdotu := vxBool("srvdotu")
	k := vxNewKit(false, false, smsize, sdotu)
	k.srv.Dotu = sdotu
	conn := k.conn // a fresh connection: msize and dialect are the server's, as NewConn leaves them
	cm := vxU32("clntmsize")
	var ver string
	switch verKind {
	case 0:
		ver = "9P2000"
	case 1:
		ver = "9P2000.u"
	default:
		ver = vxString("version", 4+verKind) // 6, 7, 8 arbitrary bytes (may spell either dialect)
	}
	tc := &Fcall{Type: Tversion, Tag: NOTAG, Fid: NOFID, Afid: NOFID, Newfid: NOFID, Msize: cm, Version: ver}
	asked := ver == "9P2000.u"
	req := k.newReq(conn, tc, 64)
	req.Process()
	rs := k.replies(conn)
	vxAssert(len(rs) == 1, "tversion-answered-once")
	if len(rs) != 1 {
		return
	}
	p := rs[0].Rc.Pkt
	vxAssert(len(p) >= 7, "reply-has-a-header")
	if len(p) < 7 {
		return
	}
	typ := p[4]
	vxObserve("replytype", int(typ))
	if cm < IOHDRSZ {
		vxAssert(typ == Rerror, "msize-too-small-for-an-io-header-is-refused")
		vxReach("refused")
		return
	}
	vxAssert(typ == Rversion, "acceptable-msize-is-not-refused")
	if typ != Rversion || len(p) < 13 {
		return
	}
	want := cm
	if smsize < cm {
		want = smsize
	}
	vxAssert(vxH12LE32(p[7:11]) == want, "rversion-msize-is-the-minimum")
	vxAssert(conn.Msize == want, "connection-msize-is-the-minimum")
	n := int(p[11]) | int(p[12])<<8
	vxAssert(13+n == len(p), "rversion-well-formed")
	if 13+n != len(p) {
		return
	}
	got := string(p[13 : 13+n])
	both := vxAll(asked, sdotu)
	vxAssert((got == "9P2000.u") == both, "dotu-iff-both-sides-asked-for-it")
	vxAssert(vxAny(got == "9P2000.u", got == "9P2000"), "plain-9P2000-otherwise")
	vxAssert(conn.Dotu == both, "connection-dialect-follows-the-negotiation")
	vxReach("negotiated")
}

// ---------------------------------------------------------------------------------------------------------------
// H12.frame
func vxH12Frame(srvMsize int, negotiate bool, class int) {
	kit := vxNewKit(false, false, uint32(srvMsize), true)
	nc := vxNewNetConn()
	kit.srv.NewConn(nc)
	msize := uint32(srvMsize)
	if negotiate {
		msize = 24
		nc.in <- refEncode(Tversion, NOTAG, []refItem{refU32(msize), refS("9P2000.u")}, true)
		vxQuiesce()
		fs, ok := vxFrames(nc.wire)
		good := ok && len(fs) == 1 && fs[0].typ == Rversion && len(fs[0].body) >= 4 && vxH12LE32(fs[0].body[:4]) == msize
		vxAssert(good, "prologue-negotiated-the-smaller-msize")
		if !good {
			return
		}
	}
	mark := len(nc.wire)
	ops := kit.ops
	size := vxU32("size")
	var seg []byte
	switch class {
	case 0: // smaller than a header; the whole (bogus) header has arrived
		vxAssume(size < 7)
		seg = vxBytes("frame", []int{7, 11, int(msize)}[vxChoose("seglen", 3)])
	case 1: // larger than msize; at least the size field and one more byte have arrived
		vxAssume(size > msize)
		seg = vxBytes("frame", []int{5, 7, 11, int(msize)}[vxChoose("seglen", 4)])
	case 2: // twin: an acceptable frame is executed and the connection stays
		seg = refEncode(Tclunk, 3, []refItem{refU32(9)}, true)
		size = uint32(len(seg))
	}
	seg[0], seg[1], seg[2], seg[3] = byte(size), byte(size>>8), byte(size>>16), byte(size>>24)
	vxAllocReset()
	nc.in <- seg
	vxQuiesce()
	if class == 2 {
		fs, ok := vxFrames(nc.wire[mark:])
		vxAssert(ok && len(fs) == 1 && fs[0].typ == Rerror && fs[0].tag == 3 && !nc.closed, "acceptable-frame-is-executed")
		vxReach("in-range")
		return
	}
	vxAssert(nc.closed, "bad-frame-size-drops-the-connection")
	vxAssert(len(nc.wire) == mark, "bad-frame-is-not-answered")
	vxAssert(len(ops.calls) == 0 && len(ops.authCalls) == 0, "bad-frame-is-not-executed")
	vxAssert(ops.closed == 1 && len(kit.srv.conns) == 0, "dropped-connection-is-closed-once-and-forgotten")
	vxAssert(vxAllocBytes() <= 8*uint64(msize)+65536, "bad-frame-is-not-buffered")
	vxReach("dropped")
}

// ---------------------------------------------------------------------------------------------------------------
// H12.bound

// a transport that accepts at most max bytes per Write
type vxShortConn struct {
	*vxNetConn
	max int
}

func (c *vxShortConn) Write(p []byte) (int, error) {
	if len(p) > c.max {
		p = p[:c.max]
	}
	return c.vxNetConn.Write(p)
}

const vxH12M0 = 96 // the server's msize before the negotiation

func vxH12Bound(m int, dotu bool, maxWrite int, pre int) {
	kit := vxNewKit(false, false, vxH12M0, true)
	ops := kit.ops
	base := vxNewNetConn()
	nc := &vxShortConn{base, maxWrite}
	kit.srv.NewConn(nc)
	ver := "9P2000"
	if dotu {
		ver = "9P2000.u"
	}
	// requests answered before the negotiation (sent in one segment, so that they are in flight together and each
	// gets a reply buffer of its own): their buffers, sized for the server's own msize, are recycled afterwards
	if pre > 0 {
		var seg []byte
		for i := 0; i < pre; i++ {
			seg = append(seg, refEncode(Tclunk, uint16(100+i), []refItem{refU32(uint32(50 + i))}, dotu)...)
		}
		base.in <- seg
		vxQuiesce()
	}
	base.in <- refEncode(Tversion, NOTAG, []refItem{refU32(uint32(m)), refS(ver)}, dotu)
	vxQuiesce()
	base.in <- vxH12Attach(1, dotu)
	vxQuiesce()
	fs, ok := vxFrames(base.wire)
	good := ok && len(fs) == pre+2 && fs[pre].typ == Rversion && fs[pre+1].typ == Rattach && vxH12LE32(fs[pre].body[:4]) == uint32(m)
	vxAssert(good, "prologue-negotiated")
	if !good {
		return
	}
	var conn *Conn
	for c := range kit.srv.conns {
		conn = c
	}
	vxAssert(conn != nil && conn.Msize == uint32(m), "connection-msize-negotiated")
	if conn == nil {
		return
	}
	if vxBool("buffers-in-use") {
		// no recycled buffer is available (other requests in flight hold them): the reply buffer is allocated afresh
		for len(conn.rchan) > 0 {
			<-conn.rchan
		}
	}
	// a stat whose reply fills the old msize exactly: 58 bytes (+14 in .u) and the name
	nlen := vxH12M0 - 58
	if dotu {
		nlen -= 14
	}
	ops.dir = &Dir{Name: vxString("name", nlen), Mode: vxU32("mode"), Length: vxU64("length")}
	// (a failed concrete assertion ends its path, so each path checks one of the three statements)
	lemma := vxChoose("lemma", 3)
	var seen *SrvReq
	ops.hook = func(op string, req *SrvReq) {
		seen = req
		if lemma == 0 { // L1
			vxAssert(len(req.Rc.Buf) <= int(req.Conn.Msize), "reply-buffer-no-longer-than-the-negotiated-msize")
		}
	}
	mark := len(base.wire)
	tag := vxU16("tag")
	vxAssume(tag != NOTAG)
	base.in <- refEncode(Tstat, tag, []refItem{refU32(0)}, dotu)
	vxQuiesce()
	vxAssert(seen != nil, "stat-reached-the-implementation")
	out := base.wire[mark:]
	fs, ok = vxFrames(out)
	vxAssert(ok && len(fs) == 1 && fs[0].tag == tag, "stat-answered-once")
	if lemma == 1 {
		for _, f := range fs {
			vxAssert(len(f.raw) <= m, "no-frame-longer-than-the-negotiated-msize")
		}
	}
	if lemma == 2 && seen != nil {
		// L3: what went out is the packet, whole and nothing else, however the transport chopped it
		vxAssert(refBytesEq(out, seen.Rc.Pkt), "sender-writes-exactly-the-packet")
		vxAssert(vxWithin(seen.Rc.Pkt, seen.Rc.Buf), "packet-lies-inside-its-buffer")
		vxReach("sent")
	}
	if ok && len(fs) == 1 && m == vxH12M0 {
		want := refEncode(Rstat, tag, []refItem{{kind: rkStatN, d: ops.dir}}, dotu)
		vxAssert(refBytesEq(fs[0].raw, want), "stat-reply-that-fits-is-sent-unchanged")
		vxReach("fits")
	}
	vxReach("done")
}

// ---------------------------------------------------------------------------------------------------------------
// H12.dialect
func vxH12Dialect(maxLen int) {
	dotu := vxBool("dotu")
	k := vxNewKit(false, false, 8192, dotu)
	conn := k.conn
	k.addFid(conn, 1, k.users.u0, 0)
	var want []byte
	unspecified := 0
	req := k.newReq(conn, &Fcall{Type: Tstat, Tag: 3, Fid: 1, Afid: NOFID, Newfid: NOFID}, 512)
	switch vxChoose("reply", 3) {
	case 0:
		d := vxSymDir("d", maxLen, true) // the .u fields are set in either dialect; plain 9P2000 must not carry them
		req.RespondRstat(d)
		want = refEncode(Rstat, NOTAG, []refItem{{kind: rkStatN, d: d}}, dotu)
		vxReach("rstat")
	case 1:
		text := vxSymStr("ename", 3)
		num := vxU32("ecode")
		req.RespondError(&Error{text, num})
		items := []refItem{refS(text)}
		if dotu {
			items = append(items, refU32(num))
		}
		want = refEncode(Rerror, NOTAG, items, dotu)
		vxReach("rerror")
	case 2:
		// an error that carries no number: the layout still follows the dialect (the number itself is not specified)
		req.RespondError(errors.New("boom"))
		want = refEncode(Rerror, NOTAG, []refItem{refS("boom")}, dotu)
		if dotu {
			want = append(want, 0, 0, 0, 0)
			want[0] += 4
			unspecified = 4
		}
		vxReach("rerror-plain")
	}
	rs := k.replies(conn)
	vxAssert(len(rs) == 1, "answered-once")
	if len(rs) != 1 {
		return
	}
	p := rs[0].Rc.Pkt
	vxAssert(len(p) == len(want), "reply-length-follows-the-dialect")
	if len(p) != len(want) {
		return
	}
	n := len(p) - unspecified // a plain error's number is not specified: compare everything else
	vxAssert(refBytesEq(p[:n], want[:n]), "reply-bytes-are-the-reference-encoding-of-the-connection's-dialect")
	vxReach("done")
}

// H12.dialect end to end: negotiate, then a stat and an error reply on the wire
func vxH12DialectE2E(srvDotu bool, askDotu bool) {
	kit := vxNewKit(false, false, 8192, true)
	kit.srv.Dotu = srvDotu
	nc := vxNewNetConn()
	kit.srv.NewConn(nc)
	ver := "9P2000"
	if askDotu {
		ver = "9P2000.u"
	}
	both := srvDotu && askDotu
	// the client encodes in the dialect it may assume before the answer: the server's initial one is srvDotu
	nc.in <- refEncode(Tversion, NOTAG, []refItem{refU32(8192), refS(ver)}, false)
	vxQuiesce()
	nc.in <- vxH12Attach(1, both)
	vxQuiesce()
	fs, ok := vxFrames(nc.wire)
	wantVer := "9P2000"
	if both {
		wantVer = "9P2000.u"
	}
	good := ok && len(fs) == 2 && refBytesEq(fs[0].raw, refEncode(Rversion, NOTAG, []refItem{refU32(8192), refS(wantVer)}, false)) && fs[1].typ == Rattach
	vxAssert(good, "prologue-negotiated")
	if !good {
		return
	}
	kit.ops.dir = vxSymDir("d", 1, true)
	mark := len(nc.wire)
	t1, t2 := vxU16("tag1"), vxU16("tag2")
	vxAssume(vxAll(t1 != NOTAG, t2 != NOTAG))
	nc.in <- refEncode(Tstat, t1, []refItem{refU32(0)}, both)
	vxQuiesce()
	nc.in <- refEncode(Tclunk, t2, []refItem{refU32(9)}, both)
	vxQuiesce()
	fs, ok = vxFrames(nc.wire[mark:])
	vxAssert(ok && len(fs) == 2, "both-answered")
	if !ok || len(fs) != 2 {
		return
	}
	wantStat := refEncode(Rstat, t1, []refItem{{kind: rkStatN, d: kit.ops.dir}}, both)
	vxAssert(refBytesEq(fs[0].raw, wantStat), "stat-reply-in-the-negotiated-dialect")
	items := []refItem{refS("unknown fid")}
	if both {
		items = append(items, refU32(EINVAL))
	}
	vxAssert(refBytesEq(fs[1].raw, refEncode(Rerror, t2, items, both)), "error-reply-in-the-negotiated-dialect")
	vxReach("done")
}

// ---------------------------------------------------------------------------------------------------------------
// H12.client
func vxH12Client(clntDotu bool, verKind int) {
	const cmsize = 64
	nc := vxNewNetConn()
	nc.onWrite = make(chan int, 8)
	rm := vxU32("peermsize")
	var ver string
	switch verKind {
	case 0:
		ver = "9P2000"
	case 1:
		ver = "9P2000.u"
	default:
		ver = vxString("version", 4+verKind)
	}
	isU := ver == "9P2000.u"
	// scripted peer: answers the first request it sees
	go func() {
		<-nc.onWrite
		fs, ok := vxFrames(nc.wire)
		vxAssert(ok && len(fs) == 1 && fs[0].typ == Tversion && fs[0].tag == NOTAG, "client-opens-with-tversion")
		if ok && len(fs) == 1 && len(fs[0].body) >= 4 {
			vxAssert(vxH12LE32(fs[0].body[:4]) == cmsize, "client-offers-its-msize")
		}
		nc.in <- refEncode(Rversion, NOTAG, []refItem{refU32(rm), refS(ver)}, false)
	}()
	vxQuiesce() // the peer is waiting for the first write before the client is built (NewClnt fills a 65535-slot tag pool)
	clnt, err := Connect(nc, cmsize, clntDotu)
	if err != nil {
		vxReach("connect-failed")
		return
	}
	want := uint32(cmsize)
	if rm < want {
		want = rm
	}
	vxAssert(clnt.Msize == want, "client-adopts-the-smaller-msize")
	vxAssert(clnt.Dotu == vxAll(isU, clntDotu), "client-speaks-dotu-iff-both-sides-asked-for-it")
	vxReach("connected")
}


// H12.retry: a refused Tversion leaves the connection as it was: a following Tversion negotiates from the
// server's msize again.
func vxH12Retry() {
	smsize := vxU32("srv.msize")
	vxAssume(smsize >= IOHDRSZ)
	k := vxNewKit(false, false, smsize, true)
	conn := k.conn
	bad := vxU32("bad.msize")
	vxAssume(bad < IOHDRSZ)
	t1 := &Fcall{Type: Tversion, Tag: NOTAG, Fid: NOFID, Afid: NOFID, Newfid: NOFID, Msize: bad, Version: "9P2000"}
	k.newReq(conn, t1, 256).Process()
	r1 := k.replies(conn)
	vxAssert(len(r1) == 1 && r1[0].Rc.Type == Rerror, "too-small-msize-refused")
	vxAssert(conn.Msize == smsize, "refused-Tversion-leaves-msize")
	good := vxU32("good.msize")
	vxAssume(good >= IOHDRSZ)
	t2 := &Fcall{Type: Tversion, Tag: NOTAG, Fid: NOFID, Afid: NOFID, Newfid: NOFID, Msize: good, Version: "9P2000"}
	k.newReq(conn, t2, 256).Process()
	r2 := k.replies(conn)
	vxAssert(len(r2) == 1 && r2[0].Rc.Type == Rversion, "retry-answered-with-Rversion")
	if len(r2) == 1 && r2[0].Rc.Type == Rversion {
		want := smsize
		if good < smsize {
			want = good
		}
		vxAssert(r2[0].Rc.Msize == want, "retry-negotiates-min(client,server)")
		vxAssert(conn.Msize == want, "retry-connection-msize")
	}
	vxReach("done")
}

// H12.twice: two valid Tversions on one connection, each asking for any of the two dialects with any msize: each
// negotiation follows the rule on its own terms -- the dialect is .u iff that Tversion asked for it and the server
// speaks it (a session that was plain 9P2000 can be renegotiated to 9P2000.u), msize is the minimum of what the
// client asks and what the connection has.
func vxH12Twice() {
	k := vxNewKit(false, false, 8192, true)
	k.srv.Dotu = vxBool("srv.dotu")
	conn := k.conn
	conn.Dotu = k.srv.Dotu
	ask := func(name string) (bool, uint32, *Fcall) {
		u := vxBool(name + ".asks.u")
		ms := vxU32(name + ".msize")
		vxAssume(ms >= IOHDRSZ)
		v := "9P2000"
		if u {
			v = "9P2000.u"
		}
		tc := &Fcall{Type: Tversion, Tag: NOTAG, Fid: NOFID, Afid: NOFID, Newfid: NOFID, Msize: ms, Version: v}
		k.newReq(conn, tc, 256).Process()
		rs := k.replies(conn)
		vxAssert(len(rs) == 1 && rs[0].Rc.Type == Rversion, name+"-answered-with-Rversion")
		if len(rs) != 1 || rs[0].Rc.Type != Rversion {
			return u, ms, nil
		}
		return u, ms, rs[0].Rc
	}
	_, m1, r1 := ask("first")
	if r1 == nil {
		return
	}
	want1 := uint32(8192)
	if m1 < want1 {
		want1 = m1
	}
	vxAssert(r1.Msize == want1, "first-negotiates-min(client,server)")
	u2, m2, r2 := ask("second")
	if r2 == nil {
		return
	}
	wantU := vxAll(u2, k.srv.Dotu)
	wantV := "9P2000"
	if wantU {
		wantV = "9P2000.u"
	}
	vxAssert(r2.Version == wantV, "second-negotiation-dialect-is-.u-iff-both-sides-ask-for-it-now")
	vxAssert(conn.Dotu == wantU, "connection-dialect-follows-the-second-negotiation")
	vxAssert(r2.Msize <= m2 && r2.Msize <= 8192 && r2.Msize >= IOHDRSZ, "second-msize-within-both-limits")
	vxReach("done")
}

// H12.sameseg: the frame-size limit is the negotiated one from the Rversion on, also for a frame that arrives in the
// same transport read as the Tversion that lowered msize: a frame longer than the new msize (but well inside the old)
// is neither executed nor answered, and the connection is dropped.
func vxH12SameSeg(cut bool) {
	kit := vxNewKit(false, false, 8192, true)
	nc := vxNewNetConn()
	kit.srv.NewConn(nc)
	m := vxU32("msize")
	vxAssume(vxAll(m >= IOHDRSZ, m <= 99))
	ver := refEncode(Tversion, NOTAG, []refItem{refU32(m), refS("9P2000.u")}, true)
	uname := make([]byte, 77)
	for i := range uname {
		uname[i] = 'u'
	}
	att := refEncode(Tattach, 1, []refItem{refU32(0), refU32(NOFID), refS(string(uname)), refS(""), refU32(0)}, true) // 100 bytes
	vxAssert(len(att) == 100, "harness-frame-size")
	if cut {
		nc.in <- ver
		vxQuiesce()
		nc.in <- att
	} else {
		nc.in <- append(append([]byte{}, ver...), att...)
	}
	vxQuiesce()
	vxAssert(kit.ops.ncalls("attach") == 0, "frame-longer-than-the-negotiated-msize-not-executed")
	fs, _ := vxFrames(nc.wire)
	for _, f := range fs {
		vxAssert(f.tag == NOTAG, "frame-longer-than-the-negotiated-msize-not-answered")
	}
	alive := false
	for range kit.srv.conns {
		alive = true
	}
	vxAssert(!alive, "frame-longer-than-the-negotiated-msize-drops-the-connection")
	vxReach("done")
}
