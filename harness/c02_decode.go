package go9p

// C02 — decoding is total and bounded on arbitrary bytes. The whole input is symbolic; lengths read from the
// buffer are concretised by the engine, so the path set is the set of distinct parse shapes.

func vxSameFcall(a, b *Fcall, dotu bool) bool {
	ok := vxAll(a.Type == b.Type, a.Fid == b.Fid, a.Tag == b.Tag, a.Msize == b.Msize, a.Version == b.Version,
		a.Oldtag == b.Oldtag, a.Error == b.Error, refQidEq(a.Qid, b.Qid), a.Iounit == b.Iounit, a.Afid == b.Afid,
		a.Uname == b.Uname, a.Aname == b.Aname, a.Perm == b.Perm, a.Name == b.Name, a.Mode == b.Mode,
		a.Newfid == b.Newfid, a.Offset == b.Offset, a.Count == b.Count, a.Errornum == b.Errornum, a.Ext == b.Ext,
		a.Unamenum == b.Unamenum, refDirEq(&a.Dir, &b.Dir, dotu))
	if len(a.Wname) != len(b.Wname) || len(a.Wqid) != len(b.Wqid) || len(a.Data) != len(b.Data) {
		return false
	}
	for i := range a.Wname {
		ok = vxAll(ok, a.Wname[i] == b.Wname[i])
	}
	for i := range a.Wqid {
		ok = vxAll(ok, refQidEq(a.Wqid[i], b.Wqid[i]))
	}
	return vxAll(ok, refBytesEq(a.Data, b.Data))
}

func vxRepack(re *Fcall, g *Fcall, dotu bool) error {
	switch g.Type {
	case Tversion:
		return PackTversion(re, g.Msize, g.Version)
	case Rversion:
		return PackRversion(re, g.Msize, g.Version)
	case Tauth:
		return PackTauth(re, g.Afid, g.Uname, g.Aname, g.Unamenum, dotu)
	case Rauth:
		return PackRauth(re, &g.Qid)
	case Tattach:
		return PackTattach(re, g.Fid, g.Afid, g.Uname, g.Aname, g.Unamenum, dotu)
	case Rattach:
		return PackRattach(re, &g.Qid)
	case Rerror:
		return PackRerror(re, g.Error, g.Errornum, dotu)
	case Tflush:
		return PackTflush(re, g.Oldtag)
	case Rflush:
		return PackRflush(re)
	case Twalk:
		return PackTwalk(re, g.Fid, g.Newfid, g.Wname)
	case Rwalk:
		return PackRwalk(re, g.Wqid)
	case Topen:
		return PackTopen(re, g.Fid, g.Mode)
	case Ropen:
		return PackRopen(re, &g.Qid, g.Iounit)
	case Tcreate:
		return PackTcreate(re, g.Fid, g.Name, g.Perm, g.Mode, g.Ext, dotu)
	case Rcreate:
		return PackRcreate(re, &g.Qid, g.Iounit)
	case Tread:
		return PackTread(re, g.Fid, g.Offset, g.Count)
	case Rread:
		return PackRread(re, g.Data)
	case Twrite:
		return PackTwrite(re, g.Fid, g.Offset, g.Count, g.Data)
	case Rwrite:
		return PackRwrite(re, g.Count)
	case Tclunk:
		return PackTclunk(re, g.Fid)
	case Rclunk:
		return PackRclunk(re)
	case Tremove:
		return PackTremove(re, g.Fid)
	case Rremove:
		return PackRremove(re)
	case Tstat:
		return PackTstat(re, g.Fid)
	case Rstat:
		return PackRstat(re, &g.Dir, dotu)
	case Twstat:
		return PackTwstat(re, g.Fid, &g.Dir, dotu)
	case Rwstat:
		return PackRwstat(re)
	}
	return &Error{"harness: undefined type", EINVAL}
}

// vxH02Unpack: all byte strings of length lo..hi; only==0 means any type byte, otherwise the type byte is
// assumed to be `only` (used to reach the long stat-carrying messages without exploding on Twalk shapes).
// strmax >= 0 (stat carriers only): additionally assume every string of the stat record is at most strmax bytes
// long, which keeps the number of parse shapes of long inputs tractable (stated in the bounds).
func vxH02Unpack(dotu bool, lo int, hi int, only int, strmax int) {
	N := lo + vxChoose("N", hi-lo+1)
	buf := vxBytes("in", N)
	if only != 0 && N > 4 {
		vxAssume(buf[4] == uint8(only))
	}
	if strmax >= 0 && (only == Rstat || only == Twstat) {
		pos := 7 + 2 + 41
		if only == Twstat {
			pos += 4
		}
		nstr := 4
		if dotu {
			nstr = 5
		}
		for i := 0; i < nstr && pos+1 < N; i++ {
			vxAssume(buf[pos+1] == 0)
			vxAssume(int(buf[pos]) <= strmax)
			l := 0
			for l < strmax && int(buf[pos]) > l {
				l++
			}
			pos += 2 + l
		}
	}
	if N > 4 {
		vxObserve("type", buf[4])
	}
	vxObserve("N", N)
	vxAllocReset()
	fc, n, err := Unpack(buf, dotu)
	vxAssert(vxAllocBytes() <= 32*uint64(N)+4096, "alloc-bounded")
	if err != nil {
		vxAssert(fc == nil, "error-returns-no-message")
		vxAssert(n == 0, "error-consumes-nothing")
		vxReach("err")
		return
	}
	vxAssert(N >= 7, "success-needs-header")
	sz := uint32(buf[0]) | uint32(buf[1])<<8 | uint32(buf[2])<<16 | uint32(buf[3])<<24
	vxAssert(uint32(n) == sz, "consumed==size-prefix")
	vxAssert(n >= 7, "consumed>=7")
	vxAssert(n <= N, "consumed<=input")
	vxAssert(refDefinedType(fc.Type), "defined-type")
	vxAssert(fc.Type == buf[4], "type==wire")
	vxAssert(fc.Tag == uint16(buf[5])|uint16(buf[6])<<8, "tag==wire")
	vxAssert(len(fc.Pkt) == n, "pkt-len")
	vxAssert(vxWithin(fc.Pkt, buf[:n]), "pkt-inside-packet")
	vxAssert(len(fc.Data) <= n, "data-len-inside-packet")
	if len(fc.Data) > 0 {
		vxAssert(vxWithin(fc.Data, buf[:n]), "data-inside-packet")
	}
	if fc.Type == Rread || fc.Type == Twrite {
		vxAssert(int(fc.Count) == len(fc.Data), "count==len(data)")
	}
	// independence of bytes beyond the declared size
	buf2 := make([]byte, N)
	copy(buf2, buf[:n])
	copy(buf2[n:], vxBytes("tail", N-n))
	fc2, n2, err2 := Unpack(buf2, dotu)
	vxAssert(err2 == nil, "trailing-bytes-change-verdict")
	if err2 == nil {
		vxAssert(n2 == n, "trailing-bytes-change-size")
		vxAssert(vxSameFcall(fc, fc2, dotu), "trailing-bytes-change-fields")
	}
	// re-encode and decode again
	re := NewFcall(uint32(n) + 64)
	perr := vxRepack(re, fc, dotu)
	vxAssert(perr == nil, "re-encode-ok")
	if perr == nil {
		SetTag(re, fc.Tag)
		// every variable-length field lies inside the packet and nothing else does: apart from the stat-carrying
		// messages (whose two size prefixes may disagree with the record) and the .u Tauth/Tattach (whose trailing
		// n_uname the decoder lets a client omit) the fields account for the whole message
		if fc.Type != Rstat && fc.Type != Twstat && !(dotu && (fc.Type == Tauth || fc.Type == Tattach)) {
			vxAssert(len(re.Pkt) == n, "decoded-fields-account-for-every-byte-of-the-message")
		}
		fc3, n3, err3 := Unpack(re.Pkt, dotu)
		vxAssert(err3 == nil, "re-encoded-decodes")
		if err3 == nil {
			vxAssert(n3 == len(re.Pkt), "re-encoded-consumed")
			vxAssert(vxSameFcall(fc, fc3, dotu), "re-encode-same-fields")
		}
	}
	vxReach("ok")
}

func vxH02Dir(dotu bool, lo int, hi int, strmax int) {
	N := lo + vxChoose("N", hi-lo+1)
	buf := vxBytes("in", N)
	if strmax >= 0 {
		pos := 41
		nstr := 4
		if dotu {
			nstr = 5
		}
		for i := 0; i < nstr && pos+1 < N; i++ {
			vxAssume(buf[pos+1] == 0)
			vxAssume(int(buf[pos]) <= strmax)
			l := 0
			for l < strmax && int(buf[pos]) > l {
				l++
			}
			pos += 2 + l
		}
	}
	vxObserve("N", N)
	vxAllocReset()
	d, rest, amt, err := UnpackDir(buf, dotu)
	vxAssert(vxAllocBytes() <= 32*uint64(N)+4096, "alloc-bounded")
	if err != nil {
		vxAssert(vxAll(d == nil, amt == 0, len(rest) == 0), "error-shape")
		vxReach("err")
		return
	}
	vxAssert(amt >= 49 && amt <= N, "amt-range")
	vxAssert(len(rest) == N-amt, "rest-len")
	if len(rest) > 0 {
		vxAssert(vxWithin(rest, buf), "rest-inside-input")
	}
	// trailing independence
	buf2 := make([]byte, N)
	copy(buf2, buf[:amt])
	copy(buf2[amt:], vxBytes("tail", N-amt))
	d2, _, amt2, err2 := UnpackDir(buf2, dotu)
	vxAssert(err2 == nil, "trailing-bytes-change-verdict")
	if err2 == nil {
		vxAssert(amt2 == amt, "trailing-bytes-change-size")
		vxAssert(refDirEq(d, d2, dotu), "trailing-bytes-change-fields")
	}
	b := PackDir(d, dotu)
	d3, _, amt3, err3 := UnpackDir(b, dotu)
	vxAssert(err3 == nil, "re-encoded-decodes")
	if err3 == nil {
		vxAssert(amt3 == len(b), "re-encoded-consumed")
		vxAssert(refDirEq(d, d3, dotu), "re-encode-same-fields")
	}
	vxReach("ok")
}
