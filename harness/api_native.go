package go9p

// Native twins of the harness intrinsics: they read a recorded nondet vector, so that a path found by the
// symbolic engine can be re-run against the real build (go test -overlay).

import (
	"sync"
	"encoding/json"
	"fmt"
	"os"
	"reflect"
	"runtime"
	"strings"
	"unsafe"
)

type vxNondetVal struct {
	Name  string `json:"name"`
	Kind  string `json:"kind"`
	Value uint64 `json:"value"`
	Bytes []byte `json:"bytes"`
}

type vxReplayFile struct {
	Harness string        `json:"harness"`
	Nondet  []vxNondetVal `json:"nondet"`
}

var vxRp struct {
	nd      []vxNondetVal
	pos     int
	seq     map[string]int
	alloc0  uint64
	failed  []string
	diverge bool
}

func vxLoadReplay(path string) {
	b, err := os.ReadFile(path)
	if err != nil {
		panic(err)
	}
	var rf vxReplayFile
	if err := json.Unmarshal(b, &rf); err != nil {
		panic(err)
	}
	vxRp.nd = rf.Nondet
	vxRp.pos = 0
	vxRp.seq = map[string]int{}
	vxRp.failed = nil
}

func vxNext(name, kind string) vxNondetVal {
	n := vxRp.seq[name]
	vxRp.seq[name] = n + 1
	full := fmt.Sprintf("%s#%d", name, n)
	if vxRp.pos >= len(vxRp.nd) {
		// a counterexample vector ends where the finding was made: nothing after it is part of the claim
		fmt.Printf("VX-VECTOR-END at %s (%s)\n", full, kind)
		os.Exit(0)
	}
	v := vxRp.nd[vxRp.pos]
	vxRp.pos++
	if v.Name != full || v.Kind != kind {
		fmt.Printf("VX-DIVERGE want %s/%s have %s/%s\n", full, kind, v.Name, v.Kind)
		vxRp.diverge = true
	}
	return v
}

func vxU8(name string) uint8   { return uint8(vxNext(name, "u8").Value) }
func vxU16(name string) uint16 { return uint16(vxNext(name, "u16").Value) }
func vxU32(name string) uint32 { return uint32(vxNext(name, "u32").Value) }
func vxU64(name string) uint64 { return vxNext(name, "u64").Value }
func vxInt(name string) int    { return int(vxNext(name, "int").Value) }
func vxBool(name string) bool  { return vxNext(name, "bool").Value != 0 }
func vxBytes(name string, n int) []byte {
	v := vxNext(name, "bytes")
	b := make([]byte, n)
	copy(b, v.Bytes)
	return b
}
func vxString(name string, n int) string {
	v := vxNext(name, "string")
	b := make([]byte, n)
	copy(b, v.Bytes)
	return string(b)
}
func vxChoose(name string, n int) int { return int(vxNext(name, "choose").Value) }
func vxAssume(c bool) {
	if !c {
		fmt.Println("VX-DIVERGE assumption false in native run")
		vxRp.diverge = true
	}
}
func vxAssert(c bool, id string) {
	if !c {
		fmt.Printf("VX-ASSERT-FAIL %s\n", id)
		vxRp.failed = append(vxRp.failed, id)
	}
}
func vxReach(id string) { fmt.Printf("VX-REACH %s\n", id) }
func vxObserve(name string, v interface{}) {
	fmt.Printf("VX-OBSERVE %s=%s\n", name, vxRender(reflect.ValueOf(v)))
}
func vxRender(rv reflect.Value) string {
	switch rv.Kind() {
	case reflect.Bool:
		if rv.Bool() {
			return "1"
		}
		return "0"
	case reflect.Int, reflect.Int8, reflect.Int16, reflect.Int32, reflect.Int64:
		bits := uint(rv.Type().Bits())
		u := uint64(rv.Int())
		if bits < 64 {
			u &= (1 << bits) - 1
		}
		return fmt.Sprint(u)
	case reflect.Uint, reflect.Uint8, reflect.Uint16, reflect.Uint32, reflect.Uint64, reflect.Uintptr:
		return fmt.Sprint(rv.Uint())
	case reflect.String:
		return fmt.Sprintf("%q", rv.String())
	case reflect.Slice:
		var parts []string
		for i := 0; i < rv.Len() && i < 64; i++ {
			parts = append(parts, vxRender(rv.Index(i)))
		}
		return "[" + strings.Join(parts, " ") + "]"
	}
	return "?"
}
func vxEvent(s string)  { fmt.Printf("VX-EVENT %s\n", s) }
func vxHeldLocks() int  { return 0 }
func vxSpawned() int    { return 0 }
func vxGoroutines() int { return runtime.NumGoroutine() }
func vxAllocBytes() uint64 {
	var ms runtime.MemStats
	runtime.ReadMemStats(&ms)
	return ms.TotalAlloc - vxRp.alloc0
}
func vxAllocReset() {
	var ms runtime.MemStats
	runtime.ReadMemStats(&ms)
	vxRp.alloc0 = ms.TotalAlloc
}
func vxQuiesce()           { vxNativeQuiesce() }
func vxYield()             { runtime.Gosched() }
func vxParkedInLib() int   { return 0 }
func vxParkedDesc() string { return "" }
func vxWithin(inner, outer []byte) bool {
	if cap(inner) == 0 || inner == nil {
		return true
	}
	if cap(outer) == 0 {
		return len(inner) == 0
	}
	pi := uintptr(unsafe.Pointer(unsafe.SliceData(inner)))
	po := uintptr(unsafe.Pointer(unsafe.SliceData(outer)))
	return pi >= po && pi+uintptr(len(inner)) <= po+uintptr(len(outer))
}
func vxSameArray(a, b []byte) bool {
	if cap(a) == 0 || cap(b) == 0 {
		return false
	}
	pa := uintptr(unsafe.Pointer(unsafe.SliceData(a[:cap(a)]))) + uintptr(cap(a))
	pb := uintptr(unsafe.Pointer(unsafe.SliceData(b[:cap(b)]))) + uintptr(cap(b))
	return pa == pb
}
func vxSetPreempt(n int) {}
func vxRaceOn(on bool)   {}
func vxSymbolic() bool   { return false }

// vxNativeQuiesce: native replays have no scheduler to ask; give the other goroutines ample time to go idle.
func vxNativeQuiesce() {
	for i := 0; i < 100; i++ {
		runtime.Gosched()
	}
	vxSleepMs(60)
}

func vxAll(c ...bool) bool {
	for _, x := range c {
		if !x {
			return false
		}
	}
	return true
}
func vxAny(c ...bool) bool {
	for _, x := range c {
		if x {
			return true
		}
	}
	return false
}

var vxMu sync.Mutex

// vxLock/vxUnlock protect harness bookkeeping in native replays (the engine runs harness code atomically
// between synchronisation points, so they are no-ops there).
// VX_NOLOCK=1 (race confirmation runs): no harness lock, so that it cannot order library accesses by accident.
var vxNoLock = os.Getenv("VX_NOLOCK") != ""

func vxLock() {
	if !vxNoLock {
		vxMu.Lock()
	}
}
func vxUnlock() {
	if !vxNoLock {
		vxMu.Unlock()
	}
}

// vxJitter: in race-confirmation runs, stretch the environment's calls a little so that concurrent requests really overlap.
func vxJitter() {
	if vxNoLock {
		vxSleepMs(1)
	}
}

// vxLibRead/vxLibWrite: race-detector attribution in the engine; natively the accesses below are real anyway.
func vxLibRead(b []byte)  {}
func vxLibWrite(b []byte) {}

// vxAssertE: an assertion over facts only the engine can observe (locks held, parked goroutines): nothing to check natively.
func vxAssertE(c bool, id string) {}
