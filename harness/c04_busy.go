package go9p

// H04.busy (C04): a fid is clunked or removed while another request on it is still executing inside the
// implementation. Once the Rclunk / Rremove is on the wire the fid number is invalid -- a request naming it is
// refused with "unknown fid" and never reaches the implementation -- and free: a Twalk may bind it again at once,
// and the new fid is a fid of its own: it survives the late end of the old request, and is reported destroyed
// exactly once when the connection goes away. The old fid is reported destroyed exactly once, when its last
// request has returned.
func vxH04Busy(remove bool, rebind bool) {
	kit := vxNewKit(false, false, 8192, true)
	nc := vxNewNetConn()
	kit.srv.NewConn(nc)
	nc.in <- refEncode(Tversion, NOTAG, []refItem{refU32(8192), refS("9P2000.u")}, true)
	vxQuiesce()
	nc.in <- refEncode(Tattach, 1, []refItem{refU32(0), refU32(NOFID), refS("u0"), refS(""), refU32(0)}, true)
	vxQuiesce()
	nc.in <- refEncode(Twalk, 1, []refItem{refU32(0), refU32(1), {kind: rkNstr, ss: nil}}, true)
	vxQuiesce()
	var conn *Conn
	for c := range kit.srv.conns {
		conn = c
	}
	vxAssert(conn != nil && conn.fidpool[1] != nil, "harness-fid-1-bound")
	if conn == nil || conn.fidpool[1] == nil {
		return
	}
	old := conn.fidpool[1]
	kit.ops.gate = map[uint16]chan bool{20: make(chan bool, 1)}
	nc.in <- refEncode(Tstat, 20, []refItem{refU32(1)}, true)
	vxQuiesce()
	mark := len(nc.writes)
	if remove {
		nc.in <- refEncode(Tremove, 21, []refItem{refU32(1)}, true)
	} else {
		nc.in <- refEncode(Tclunk, 21, []refItem{refU32(1)}, true)
	}
	vxQuiesce()
	vxAssert(len(nc.writes) == mark+1 && nc.writes[mark][4] != Rerror, "clunk-answered-while-another-request-uses-the-fid")
	if len(nc.writes) != mark+1 {
		return
	}
	ncalls := len(kit.ops.calls)
	var fresh *SrvFid
	if rebind {
		nc.in <- refEncode(Twalk, 22, []refItem{refU32(0), refU32(1), {kind: rkNstr, ss: nil}}, true)
		vxQuiesce()
		vxAssert(len(nc.writes) == mark+2 && nc.writes[mark+1][4] == Rwalk, "clunked-fid-number-can-be-bound-again")
		if len(nc.writes) != mark+2 || nc.writes[mark+1][4] != Rwalk {
			return
		}
		fresh = conn.fidpool[1]
		vxAssert(fresh != nil && fresh != old, "rebound-number-designates-a-new-fid")
	} else {
		nc.in <- refEncode(Tstat, 22, []refItem{refU32(1)}, true)
		vxQuiesce()
		vxAssert(len(nc.writes) == mark+2 && nc.writes[mark+1][4] == Rerror, "clunked-fid-refused")
		vxAssert(len(kit.ops.calls) == ncalls, "request-on-clunked-fid-does-not-reach-the-implementation")
	}
	vxAssert(kit.ops.ndestroyed(old) == 0, "fid-in-use-by-a-request-not-destroyed-under-it")
	kit.ops.gate[20] <- true
	vxQuiesce()
	vxAssert(len(nc.writes) == mark+3 && nc.writes[mark+2][4] == Rstat, "held-request-answered")
	vxAssert(kit.ops.ndestroyed(old) == 1, "clunked-fid-destroyed-once-when-its-last-request-returned")
	if rebind && fresh != nil {
		vxAssert(conn.fidpool[1] == fresh, "new-fid-survives-the-end-of-the-old-fid's-request")
		n := len(kit.ops.calls)
		nc.in <- refEncode(Tstat, 23, []refItem{refU32(1)}, true)
		vxQuiesce()
		vxAssert(len(nc.writes) == mark+4 && nc.writes[mark+3][4] == Rstat, "new-fid-still-valid")
		vxAssert(len(kit.ops.calls) == n+1 && kit.ops.calls[n].fid == fresh, "request-forwarded-with-the-new-fid")
		vxAssert(kit.ops.ndestroyed(fresh) == 0, "new-fid-not-destroyed-while-valid")
	}
	nc.hangup()
	vxQuiesce()
	vxAssert(kit.ops.ndestroyed(old) == 1, "old-fid-destroyed-exactly-once")
	if fresh != nil {
		vxAssert(kit.ops.ndestroyed(fresh) == 1, "new-fid-destroyed-exactly-once-at-disconnect")
	}
	vxReach("done")
}
