package go9p

// H03.recycle: a request is cancelled through the implementation's FlushOp while the implementation still holds it;
// the implementation fills the request's own reply buffer in place when it gets round to it (as the Unix file server's
// Read does) and its late answer is discarded. Requests that arrive meanwhile and afterwards are answered with exactly
// their own content: the cancelled request's buffer is not theirs to share.
func vxH03Recycle() {
	kit := vxNewKit(false, true, 8192, true)
	kit.ops.flushCall = true
	kit.ops.echo = true
	kit.ops.direct = true
	nc := vxNewNetConn()
	kit.srv.NewConn(nc)
	nc.in <- refEncode(Tversion, NOTAG, []refItem{refU32(8192), refS("9P2000.u")}, true)
	vxQuiesce()
	nc.in <- refEncode(Tattach, 1, []refItem{refU32(0), refU32(NOFID), refS("u0"), refS(""), refU32(0)}, true)
	vxQuiesce()
	nc.in <- refEncode(Topen, 1, []refItem{refU32(0), refU8(ORDWR)}, true)
	vxQuiesce()
	g := make(chan bool, 1)
	kit.ops.gate = map[uint16]chan bool{10: g}
	mark := len(nc.wire)
	nc.in <- refEncode(Tread, 10, []refItem{refU32(0), refU64(0x0a0a), refU32(2)}, true)
	vxQuiesce()
	nc.in <- refEncode(Tflush, 11, []refItem{refU16(10)}, true)
	vxQuiesce()
	late := vxBool("cancelled-request-returns-after-the-next-request")
	if !late {
		g <- true
		vxQuiesce()
	}
	nc.in <- refEncode(Tread, 12, []refItem{refU32(0), refU64(0x0c0c), refU32(2)}, true)
	if late {
		g <- true
	}
	vxQuiesce()
	nc.in <- refEncode(Tread, 13, []refItem{refU32(0), refU64(0x0d0d), refU32(2)}, true)
	vxQuiesce()
	fs, ok := vxFrames(nc.wire[mark:])
	vxAssert(ok, "reply-stream-well-formed")
	n10, nfl, n12, n13 := 0, 0, 0, 0
	for _, f := range fs {
		switch f.tag {
		case 10:
			n10++
		case 11:
			nfl++
			vxAssert(f.typ == Rflush, "flush-answered-with-Rflush")
		case 12:
			n12++
			vxAssert(refBytesEq(f.raw, refEncode(Rread, 12, []refItem{{kind: rkData, cnt: 2, b: []byte{0x0c, 0x0c}}}, true)), "reply-content-is-what-the-implementation-produced-for-this-request")
		case 13:
			n13++
			vxAssert(refBytesEq(f.raw, refEncode(Rread, 13, []refItem{{kind: rkData, cnt: 2, b: []byte{0x0d, 0x0d}}}, true)), "reply-content-is-what-the-implementation-produced-for-this-request")
		default:
			vxAssert(false, "no-reply-for-a-tag-without-request")
		}
	}
	vxAssert(n10 == 0 && nfl == 1, "cancelled-request-gets-no-reply-after-its-Rflush")
	vxAssert(n12 == 1 && n13 == 1, "later-requests-answered-once")
	vxReach("done")
}
