package go9p

// Harness intrinsics: body-less declarations intercepted by the gosym engine.
// (The native twins used for replay live in api_native.go.)

func vxU8(name string) uint8
func vxU16(name string) uint16
func vxU32(name string) uint32
func vxU64(name string) uint64
func vxInt(name string) int
func vxBool(name string) bool
func vxBytes(name string, n int) []byte
func vxString(name string, n int) string
func vxChoose(name string, n int) int
func vxAssume(c bool)
func vxAssert(c bool, id string)
func vxReach(id string)
func vxObserve(name string, v interface{})
func vxEvent(s string)
func vxHeldLocks() int
func vxSpawned() int
func vxGoroutines() int
func vxAllocBytes() uint64
func vxAllocReset()
func vxQuiesce()
func vxYield()
func vxParkedInLib() int
func vxParkedDesc() string
func vxWithin(inner, outer []byte) bool
func vxSameArray(a, b []byte) bool
func vxSetPreempt(n int)
func vxRaceOn(on bool)
func vxSymbolic() bool
func vxAll(c ...bool) bool
func vxAny(c ...bool) bool
func vxLock()
func vxUnlock()
func vxJitter()
func vxLibRead(b []byte)
func vxLibWrite(b []byte)
func vxAssertE(c bool, id string)
