package go9p

// C04 — the fid table follows the protocol history.
//
// API level: every request goes through the exported req.Process() on kit connections. The oracle is a reference
// model of the property statement (DESIGN Appendix B.3): per connection, the set of valid fid numbers with the user
// each is bound to. The model is driven by the *replies* (a fid becomes valid through a successful Tauth / Tattach /
// complete Twalk, is invalid after a successful Tclunk or any Tremove, nothing else changes it) and is compared with
// the implementation through probes (Tstat on every number of the universe on every connection), through the
// 'unknown fid' / 'fid already in use' refusals, and through the FidDestroy log of the scripted implementation.
// Three-valued where the statement is silent: NOFID used as the *new* fid of Tauth/Tattach/Twalk, the user of a fid
// bound by a request that names no known user, FidDestroy for fids the implementation was never shown.

const vxC04N = 3 // universe of fid numbers 0,1,2 (+ NOFID)

type vxRefFid struct {
	valid   bool
	user    User
	userAny bool // bound by a request naming no known user: the statement does not say whose fid it is
	auth    bool // bound by Tauth (only used to keep Tread counts on auth fids small, see sym)
	opened  bool // a Topen/Tcreate on it succeeded (only used to know when a walk from it may be refused for that reason)
}

type vxC04 struct {
	kit   *vxKit
	conns [2]*Conn
	m     [2][vxC04N]vxRefFid
	tag   uint16
	lean  bool  // two-step runs: users are always given by matching name and number
	slim  bool  // two-step runs from the larger setups: f1 is a directory; only the last request ranges over all 13 types
	dq    []int // per FidDestroy call: replies queued on the fid's connection and not yet taken at that moment
}

type vxC04Reply struct {
	typ   uint8
	ename string
	nwqid int
}

// what the client would see: parsed from the packet bytes, not from the Fcall's decoded fields
func vxC04Parse(rc *Fcall) vxC04Reply {
	var r vxC04Reply
	p := rc.Pkt
	if len(p) < 7 {
		return r
	}
	r.typ = p[4]
	if r.typ == Rerror && len(p) >= 9 {
		n := int(p[7]) | int(p[8])<<8
		if 9+n <= len(p) {
			r.ename = string(p[9 : 9+n])
		}
	}
	if r.typ == Rwalk && len(p) >= 9 {
		r.nwqid = int(p[7]) | int(p[8])<<8
	}
	return r
}

func vxNewC04(withAuth bool) *vxC04 {
	h := new(vxC04)
	dotu := vxBool("dotu")
	h.kit = vxNewKit(withAuth, false, 8192, dotu)
	h.conns[0] = h.kit.conn
	h.conns[1] = h.kit.newConn(8192, dotu)
	h.kit.ops.data = []byte{1, 2}
	h.kit.ops.onDestroy = func(f *SrvFid) {
		q := 0
		if f.Fconn != nil {
			q = len(f.Fconn.reqout)
		}
		h.dq = append(h.dq, q)
	}
	return h
}

// the user a Tauth/Tattach names (reference: consistent name and number, or a name alone)
func (h *vxC04) namedUser(tc *Fcall) (User, bool) {
	us := h.kit.users
	switch {
	case tc.Uname == "u0" && (tc.Unamenum == 0 || tc.Unamenum == NOUID):
		return us.u0, true
	case tc.Uname == "u1" && (tc.Unamenum == 1 || tc.Unamenum == NOUID):
		return us.u1, true
	}
	return nil, false
}

type vxC04Guard struct {
	unknown  bool // names a fid that is not valid: must be refused with 'unknown fid'
	inuse    bool // would bind a valid fid: must be refused with 'fid already in use'
	selfAfid bool // Tattach whose afid is its own, not yet valid, new fid
	silent   bool // NOFID as the fid to be bound: the statement is silent
}

func (h *vxC04) guard(ci int, tc *Fcall) vxC04Guard {
	m := &h.m[ci]
	valid := func(n uint32) bool { return n < vxC04N && m[n].valid }
	var g vxC04Guard
	switch tc.Type {
	case Tversion, Tflush:
	case Tauth:
		if tc.Afid == NOFID {
			g.silent = true
		} else if valid(tc.Afid) {
			g.inuse = true
		}
	case Tattach:
		if tc.Fid == NOFID {
			g.silent = true
		} else if valid(tc.Fid) {
			g.inuse = true
		}
		if tc.Afid != NOFID && !valid(tc.Afid) {
			if tc.Afid == tc.Fid {
				g.selfAfid = true
			} else {
				g.unknown = true
			}
		}
	case Twalk:
		if !valid(tc.Fid) {
			g.unknown = true
		}
		if tc.Newfid != tc.Fid {
			if tc.Newfid == NOFID {
				g.silent = true
			} else if valid(tc.Newfid) {
				g.inuse = true
			}
		}
	default:
		if !valid(tc.Fid) {
			g.unknown = true
		}
	}
	return g
}

// shown: every SrvFid the implementation has been handed so far (any argument of any call)
func (h *vxC04) shown() []*SrvFid {
	var s []*SrvFid
	add := func(f *SrvFid) {
		if f == nil {
			return
		}
		for _, x := range s {
			if x == f {
				return
			}
		}
		s = append(s, f)
	}
	for _, c := range h.kit.ops.calls {
		add(c.fid)
		add(c.afid)
		add(c.newfid)
	}
	for _, c := range h.kit.ops.authCalls {
		add(c.fid)
		add(c.afid)
	}
	return s
}

func vxC04Count(l []*SrvFid, f *SrvFid) int {
	n := 0
	for _, x := range l {
		if x == f {
			n++
		}
	}
	return n
}

// step: one request on connection ci through Process(); checks the refusal rules and advances the model.
func (h *vxC04) step(ci int, tc *Fcall) (vxC04Reply, bool) {
	ops := h.kit.ops
	conn := h.conns[ci]
	if tc.Type == Tversion {
		tc.Tag = NOTAG
	} else {
		h.tag++
		tc.Tag = h.tag
	}
	g := h.guard(ci, tc)
	c0, a0, d0 := len(ops.calls), len(ops.authCalls), len(ops.destroyed)

	req := h.kit.newReq(conn, tc, 512)
	req.Process()

	rs := h.kit.replies(conn)
	vxAssert(len(rs) == 1, "step-queues-one-reply")
	if len(rs) != 1 {
		return vxC04Reply{}, false
	}
	vxAssert(rs[0] == req, "step-reply-is-for-this-request")
	vxAssert(len(h.conns[1-ci].reqout) == 0, "other-connection-gets-no-reply")
	r := vxC04Parse(rs[0].Rc)
	reached := len(ops.calls) != c0 || len(ops.authCalls) != a0

	// ---- refusals, exactly when the model says so ----
	if g.unknown || g.inuse || g.selfAfid {
		class := "bound-fid"
		switch {
		case g.selfAfid:
			class = "attach-with-its-own-new-fid-as-afid"
		case g.unknown && tc.Type == Tattach:
			class = "attach-with-unknown-afid"
		case g.unknown && tc.Fid == NOFID:
			class = "nofid-as-operand"
		case g.unknown:
			class = "invalid-fid"
		}
		vxAssert(r.typ == Rerror, class+":refused-with-an-error")
		vxAssert(!reached, class+":does-not-reach-the-implementation")
		if r.typ == Rerror && !g.silent {
			// which of several applicable refusals is reported is not fixed by the statement: a walk that would bind a
			// valid fid may as well be refused for walking from an open fid or from a non-directory (C05's rules), and
			// a Tauth/Tattach whose user is not given by a matching name and number may be refused for its user
			otherRule := tc.Type == Twalk && tc.Fid < vxC04N && (len(tc.Wname) > 0 || h.m[ci][tc.Fid].opened)
			userRule := false
			if tc.Type == Tattach || tc.Type == Tauth {
				_, named := h.namedUser(tc)
				userRule = (!named || tc.Unamenum == NOUID) && r.ename == "unknown user"
			}
			okText := ((g.unknown || g.selfAfid) && r.ename == "unknown fid") || (g.inuse && (r.ename == "fid already in use" || otherRule)) || userRule
			vxAssert(okText, class+":error-text")
		}
	}
	if r.typ == Rerror && r.ename == "unknown fid" {
		vxAssert(g.unknown || g.selfAfid || g.silent, "unknown-fid-error-only-for-invalid-fids")
	}
	if r.typ == Rerror && r.ename == "fid already in use" {
		vxAssert(g.inuse || g.silent, "fid-in-use-error-only-for-valid-fids")
	}

	// ---- a forwarded request carries the table's fid with the user it is bound to ----
	m := &h.m[ci]
	for _, c := range ops.calls[c0:] {
		if tc.Type == Tattach {
			if u, ok := h.namedUser(tc); ok {
				vxAssert(c.user == u, "attach-forwarded-with-the-named-user")
			}
			continue
		}
		vxAssert(c.fid != nil && c.fidno == tc.Fid && c.fid.Fconn == conn, "forwarded-with-this-connection's-fid")
		if tc.Fid < vxC04N && m[tc.Fid].valid && !m[tc.Fid].userAny {
			vxAssert(c.user == m[tc.Fid].user, "forwarded-with-the-user-the-fid-is-bound-to")
		}
	}

	// ---- model transition (Appendix B.3), driven by the reply ----
	was := *m
	switch tc.Type {
	case Tauth:
		if r.typ == Rauth && tc.Afid < vxC04N && !g.inuse {
			u, ok := h.namedUser(tc)
			m[tc.Afid] = vxRefFid{valid: true, user: u, userAny: !ok, auth: true}
		}
	case Tattach:
		if r.typ == Rattach && tc.Fid < vxC04N && !g.inuse && !g.unknown && !g.selfAfid {
			u, ok := h.namedUser(tc)
			m[tc.Fid] = vxRefFid{valid: true, user: u, userAny: !ok}
		}
	case Twalk:
		if r.typ == Rwalk && r.nwqid == len(tc.Wname) && tc.Newfid != tc.Fid && tc.Newfid < vxC04N && !g.unknown && !g.inuse {
			m[tc.Newfid] = m[tc.Fid]
			m[tc.Newfid].opened = false
		}
	case Topen, Tcreate:
		if (r.typ == Ropen || r.typ == Rcreate) && tc.Fid < vxC04N && m[tc.Fid].valid {
			m[tc.Fid].opened = true
		}
	case Tclunk:
		if r.typ == Rclunk && tc.Fid < vxC04N {
			m[tc.Fid] = vxRefFid{}
		}
	case Tremove:
		if tc.Fid < vxC04N {
			m[tc.Fid] = vxRefFid{}
		}
	}

	// ---- a fid invalidated by this reply: its destruction was announced before the reply was queued ----
	for n := 0; n < vxC04N; n++ {
		if !(was[n].valid && !m[n].valid) {
			continue
		}
		for _, p := range h.shown() {
			if p.fid != uint32(n) || p.Fconn != conn || vxC04Count(ops.destroyed[:d0], p) != 0 {
				continue
			}
			// p is the object the implementation knew number n by
			told, early := 0, true
			for i := d0; i < len(ops.destroyed); i++ {
				if ops.destroyed[i] == p {
					told++
					if h.dq[i] != 0 {
						early = false
					}
				}
			}
			vxAssert(told == 1, "destroy-announced-once-by-the-time-the-invalidating-reply-is-queued")
			vxAssert(early, "destroy-announced-no-later-than-the-invalidating-reply")
		}
	}
	return r, true
}

// probe: Tstat on every number of the universe on both connections
func (h *vxC04) probe() bool {
	ops := h.kit.ops
	ops.outcome = vxOutOK
	for ci := 0; ci < 2; ci++ {
		for n := 0; n < vxC04N; n++ {
			c0 := len(ops.calls)
			want := h.m[ci][n]
			tc := vxC04Tc(Tstat)
			tc.Fid = uint32(n)
			r, ok := h.step(ci, tc)
			if !ok {
				return false
			}
			if want.valid {
				vxAssert(r.typ == Rstat && len(ops.calls) == c0+1, "valid-fid-answers-the-probe")
				if len(ops.calls) == c0+1 {
					c := ops.calls[c0]
					vxAssert(c.op == "stat" && c.fidno == uint32(n) && c.fid != nil && c.fid.Fconn == h.conns[ci], "probe-reaches-the-implementation-with-this-connection's-fid")
					if !want.userAny {
						vxAssert(c.user == want.user, "probe-sees-the-user-the-fid-is-bound-to")
					}
				}
			} else {
				vxAssert(r.typ == Rerror && r.ename == "unknown fid" && len(ops.calls) == c0, "invalid-fid-does-not-answer-the-probe")
			}
		}
	}
	return true
}

func (h *vxC04) attach(ci int, fid uint32, afid uint32, u int) {
	tc := vxC04Tc(Tattach)
	tc.Fid, tc.Afid, tc.Uname, tc.Unamenum = fid, afid, []string{"u0", "u1"}[u], uint32(u)
	h.step(ci, tc)
}

// setup menu: concrete prefixes, run through Process() like everything else
func (h *vxC04) setup(s int) {
	ops := h.kit.ops
	ops.outcome = vxOutOK
	ops.qid.Type = QTDIR
	if s >= 1 {
		h.attach(0, 0, NOFID, 0)
	}
	if s == 5 {
		h.attach(1, 0, NOFID, 1)
		return
	}
	if s >= 2 {
		if !h.slim && !vxBool("f1dir") {
			ops.qid.Type = 0
		}
		tc := vxC04Tc(Twalk)
		tc.Fid, tc.Newfid, tc.Wname = 0, 1, []string{"a"}
		h.step(0, tc)
	}
	if s >= 3 {
		tc := vxC04Tc(Topen)
		tc.Fid, tc.Mode = 1, OREAD
		h.step(0, tc)
	}
	if s >= 4 {
		tc := vxC04Tc(Tauth)
		tc.Afid, tc.Uname, tc.Unamenum = 2, "u1", 1
		h.step(0, tc)
	}
}

// vxC04Tc: a decoded T-message as Unpack leaves it — fid fields the message does not carry are NOFID
func vxC04Tc(typ uint8) *Fcall {
	return &Fcall{Type: typ, Fid: NOFID, Afid: NOFID, Newfid: NOFID}
}

var vxC04Types = []uint8{Tversion, Tauth, Tattach, Tflush, Twalk, Topen, Tcreate, Tread, Twrite, Tclunk, Tremove, Tstat, Twstat}

func vxC04Fid(name string) uint32 {
	c := vxChoose(name, vxC04N+1)
	if c == vxC04N {
		return NOFID
	}
	return uint32(c)
}

func (h *vxC04) symUser(tc *Fcall) {
	u := vxChoose("user", 2)
	form := 0
	if !h.lean {
		form = vxChoose("uidform", 3)
	}
	switch form {
	case 0: // name and number agree
		tc.Uname, tc.Unamenum = []string{"u0", "u1"}[u], uint32(u)
	case 1: // name only
		tc.Uname, tc.Unamenum = []string{"u0", "u1"}[u], NOUID
	case 2: // nobody the server knows
		tc.Uname, tc.Unamenum = "nobody", 7
	}
}

// the types whose replies can change the table (or what a later walk may do): Tauth, Tattach, Twalk, Topen, Tcreate, Tclunk, Tremove
var vxC04Changing = []uint8{Tauth, Tattach, Twalk, Topen, Tcreate, Tclunk, Tremove}

// sym: one fully symbolic request on connection 0
func (h *vxC04) sym(last bool) bool {
	ops := h.kit.ops
	types := vxC04Types
	if h.slim && !last {
		types = vxC04Changing
	}
	typ := types[vxChoose("type", len(types))]
	tc := vxC04Tc(typ)
	qt := vxU8("qidtype")
	vxAssume(qt&QTAUTH == 0) // contract of the implementation: only Rauth qids are authentication files
	ops.qid.Type = qt
	outcomes := 2
	switch typ {
	case Tversion:
		tc.Msize = vxU32("msize")
		tc.Version = []string{"9P2000", "9P2000.u"}[vxChoose("version", 2)]
		outcomes = 1
	case Tauth:
		tc.Afid = vxC04Fid("afid")
		h.symUser(tc)
	case Tattach:
		tc.Fid = vxC04Fid("fid")
		tc.Afid = vxC04Fid("afid")
		h.symUser(tc)
	case Tflush:
		tc.Oldtag = vxU16("oldtag")
		vxAssume(tc.Oldtag != h.tag+1) // nothing else is outstanding; a Tflush of itself is not a request history
		outcomes = 1
	case Twalk:
		tc.Fid = vxC04Fid("fid")
		tc.Newfid = vxC04Fid("newfid")
		tc.Wname = []string{"a", "b"}[:vxChoose("nwname", 3)]
		if len(tc.Wname) > 0 {
			outcomes = 3
		}
	case Topen:
		tc.Fid = vxC04Fid("fid")
		tc.Mode = vxU8("mode")
	case Tcreate:
		tc.Fid = vxC04Fid("fid")
		tc.Perm = vxU32("perm")
		tc.Mode = vxU8("mode")
		tc.Name = "n"
	case Tread:
		tc.Fid = vxC04Fid("fid")
		tc.Offset = vxU64("offset")
		tc.Count = vxU32("count")
		if tc.Fid < vxC04N && h.m[0][tc.Fid].auth {
			// reads of authentication fids slice the reply buffer by count: keep the shapes few, the values free
			vxAssume(vxAny(tc.Count <= 3, tc.Count > 8192))
		}
	case Twrite:
		tc.Fid = vxC04Fid("fid")
		tc.Offset = vxU64("offset")
		tc.Data = vxBytes("data", 2)
		tc.Count = 2
	default: // Tclunk, Tremove, Tstat, Twstat
		tc.Fid = vxC04Fid("fid")
	}
	switch vxChoose("outcome", outcomes) {
	case 0:
		ops.outcome = vxOutOK
	case 1:
		ops.outcome = vxOutErr
	case 2:
		ops.outcome = vxOutPartial
		ops.partialN = vxChoose("partial", len(tc.Wname))
	}
	vxObserve("type", int(typ))
	r, ok := h.step(0, tc)
	if ok {
		vxObserve("reply", int(r.typ))
	}
	return ok
}

func (h *vxC04) finish() {
	ops := h.kit.ops
	if !h.probe() {
		return
	}
	// epilogue: clunk whatever the model says is valid
	for ci := 0; ci < 2; ci++ {
		for n := 0; n < vxC04N; n++ {
			if !h.m[ci][n].valid {
				continue
			}
			tc := vxC04Tc(Tclunk)
			tc.Fid = uint32(n)
			r, ok := h.step(ci, tc)
			if !ok {
				return
			}
			vxAssert(r.typ == Rclunk, "epilogue-clunk-of-a-valid-fid-succeeds")
		}
	}
	for ci := 0; ci < 2; ci++ {
		for n := 0; n < vxC04N; n++ {
			if h.m[ci][n].valid {
				return // (already reported by the assertion above)
			}
		}
	}
	if !h.probe() {
		return
	}
	// every fid the implementation was ever shown has been reported destroyed exactly once
	// (a fid bound to the number NOFID cannot be named by a clunk; the statement is silent about it)
	for _, p := range h.shown() {
		if p.fid == NOFID {
			continue
		}
		vxAssert(vxC04Count(ops.destroyed, p) == 1, "every-fid-shown-to-the-implementation-destroyed-exactly-once")
	}
	vxReach("done")
}

// H04.hist: setup prefix, one symbolic request, probes, epilogue, probes.
func vxH04Hist(setup int, withAuth bool, nsym int, slim bool) {
	h := vxNewC04(withAuth)
	h.lean = nsym > 1
	h.slim = slim
	h.setup(setup)
	for i := 0; i < nsym; i++ {
		if !h.sym(i == nsym-1) {
			return
		}
	}
	h.finish()
}
