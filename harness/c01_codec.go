package go9p

// C01 — wire-format fidelity of the codec. Every field is a full-width symbolic value; string / list /
// payload lengths are chosen (forked) inside the stated bounds; the oracle is ref_wire.go.

type vxC01 struct {
	B, K, D int
	long    int // >0: the first string of the message has exactly this length
	nstr    int
}

func (h *vxC01) str(name string) string {
	h.nstr++
	if h.long > 0 {
		if h.nstr == 1 {
			return vxString(name, h.long)
		}
		return vxString(name, h.nstr%2)
	}
	return vxSymStr(name, h.B)
}

func (h *vxC01) dir(name string, dotu bool) *Dir {
	d := new(Dir)
	d.Size = vxU16(name + ".size") // whatever an earlier decode left there: the encoder computes the size itself
	d.Type = vxU16(name + ".type")
	d.Dev = vxU32(name + ".dev")
	d.Qid = vxSymQid(name + ".qid")
	d.Mode = vxU32(name + ".mode")
	d.Atime = vxU32(name + ".atime")
	d.Mtime = vxU32(name + ".mtime")
	d.Length = vxU64(name + ".length")
	d.Name = h.str(name + ".name")
	d.Uid = h.str(name + ".uid")
	d.Gid = h.str(name + ".gid")
	d.Muid = h.str(name + ".muid")
	if dotu {
		d.Ext = h.str(name + ".ext")
		d.Uidnum = vxU32(name + ".nuid")
		d.Gidnum = vxU32(name + ".ngid")
		d.Muidnum = vxU32(name + ".nmuid")
	}
	return d
}

func vxH01Msg(typ int, dotu bool, B int, K int, D int, long int) {
	h := &vxC01{B: B, K: K, D: D, long: long}
	slack := vxChoose("slack", 3) // 0: one byte too small, 1: exact, 2: five spare bytes
	var items []refItem
	var pack func(fc *Fcall) error
	var same func(g *Fcall) bool
	switch typ {
	case Tversion, Rversion:
		msize, ver := vxU32("msize"), h.str("version")
		items = []refItem{refU32(msize), refS(ver)}
		if typ == Tversion {
			pack = func(fc *Fcall) error { return PackTversion(fc, msize, ver) }
		} else {
			pack = func(fc *Fcall) error { return PackRversion(fc, msize, ver) }
		}
		same = func(g *Fcall) bool { return vxAll(g.Msize == msize, g.Version == ver) }
	case Tauth:
		afid, uname, aname, nuname := vxU32("afid"), h.str("uname"), h.str("aname"), vxU32("n_uname")
		items = []refItem{refU32(afid), refS(uname), refS(aname)}
		if dotu {
			items = append(items, refU32(nuname))
		}
		pack = func(fc *Fcall) error { return PackTauth(fc, afid, uname, aname, nuname, dotu) }
		same = func(g *Fcall) bool {
			ok := vxAll(g.Afid == afid, g.Uname == uname, g.Aname == aname)
			if dotu {
				ok = vxAll(ok, g.Unamenum == nuname)
			}
			return ok
		}
	case Rauth, Rattach:
		q := vxSymQid("qid")
		items = []refItem{refQ(q)}
		if typ == Rauth {
			pack = func(fc *Fcall) error { return PackRauth(fc, &q) }
		} else {
			pack = func(fc *Fcall) error { return PackRattach(fc, &q) }
		}
		same = func(g *Fcall) bool { return refQidEq(g.Qid, q) }
	case Tattach:
		fid, afid, uname, aname, nuname := vxU32("fid"), vxU32("afid"), h.str("uname"), h.str("aname"), vxU32("n_uname")
		items = []refItem{refU32(fid), refU32(afid), refS(uname), refS(aname)}
		if dotu {
			items = append(items, refU32(nuname))
		}
		pack = func(fc *Fcall) error { return PackTattach(fc, fid, afid, uname, aname, nuname, dotu) }
		same = func(g *Fcall) bool {
			ok := vxAll(g.Fid == fid, g.Afid == afid, g.Uname == uname, g.Aname == aname)
			if dotu {
				ok = vxAll(ok, g.Unamenum == nuname)
			}
			return ok
		}
	case Rerror:
		ename, ecode := h.str("ename"), vxU32("ecode")
		items = []refItem{refS(ename)}
		if dotu {
			items = append(items, refU32(ecode))
		}
		pack = func(fc *Fcall) error { return PackRerror(fc, ename, ecode, dotu) }
		same = func(g *Fcall) bool {
			ok := g.Error == ename
			if dotu {
				ok = vxAll(ok, g.Errornum == ecode)
			}
			return ok
		}
	case Tflush:
		oldtag := vxU16("oldtag")
		items = []refItem{refU16(oldtag)}
		pack = func(fc *Fcall) error { return PackTflush(fc, oldtag) }
		same = func(g *Fcall) bool { return g.Oldtag == oldtag }
	case Rflush, Rclunk, Rremove, Rwstat:
		switch typ {
		case Rflush:
			pack = PackRflush
		case Rclunk:
			pack = PackRclunk
		case Rremove:
			pack = PackRremove
		default:
			pack = PackRwstat
		}
		same = func(g *Fcall) bool { return true }
	case Twalk:
		fid, newfid := vxU32("fid"), vxU32("newfid")
		n := K
		if K <= 2 {
			n = vxChoose("nwname", K+1)
		}
		names := make([]string, n)
		for i := range names {
			if K <= 2 {
				names[i] = h.str("wname")
			} else {
				names[i] = vxString("wname", (i*7+3)%(B+1))
			}
		}
		items = []refItem{refU32(fid), refU32(newfid), {kind: rkNstr, ss: names}}
		pack = func(fc *Fcall) error { return PackTwalk(fc, fid, newfid, names) }
		same = func(g *Fcall) bool {
			ok := vxAll(g.Fid == fid, g.Newfid == newfid, len(g.Wname) == len(names))
			if len(g.Wname) == len(names) {
				for i := range names {
					ok = vxAll(ok, g.Wname[i] == names[i])
				}
			}
			return ok
		}
	case Rwalk:
		n := K
		if K <= 2 {
			n = vxChoose("nwqid", K+1)
		}
		qs := make([]Qid, n)
		for i := range qs {
			qs[i] = vxSymQid("wqid")
		}
		items = []refItem{{kind: rkNqid, qs: qs}}
		pack = func(fc *Fcall) error { return PackRwalk(fc, qs) }
		same = func(g *Fcall) bool {
			ok := len(g.Wqid) == len(qs)
			if ok {
				for i := range qs {
					ok = vxAll(ok, refQidEq(g.Wqid[i], qs[i]))
				}
			}
			return ok
		}
	case Topen:
		fid, mode := vxU32("fid"), vxU8("mode")
		items = []refItem{refU32(fid), refU8(mode)}
		pack = func(fc *Fcall) error { return PackTopen(fc, fid, mode) }
		same = func(g *Fcall) bool { return vxAll(g.Fid == fid, g.Mode == mode) }
	case Ropen, Rcreate:
		q, iounit := vxSymQid("qid"), vxU32("iounit")
		items = []refItem{refQ(q), refU32(iounit)}
		if typ == Ropen {
			pack = func(fc *Fcall) error { return PackRopen(fc, &q, iounit) }
		} else {
			pack = func(fc *Fcall) error { return PackRcreate(fc, &q, iounit) }
		}
		same = func(g *Fcall) bool { return vxAll(refQidEq(g.Qid, q), g.Iounit == iounit) }
	case Tcreate:
		fid, name, perm, mode, ext := vxU32("fid"), h.str("name"), vxU32("perm"), vxU8("mode"), h.str("ext")
		items = []refItem{refU32(fid), refS(name), refU32(perm), refU8(mode)}
		if dotu {
			items = append(items, refS(ext))
		}
		pack = func(fc *Fcall) error { return PackTcreate(fc, fid, name, perm, mode, ext, dotu) }
		same = func(g *Fcall) bool {
			ok := vxAll(g.Fid == fid, g.Name == name, g.Perm == perm, g.Mode == mode)
			if dotu {
				ok = vxAll(ok, g.Ext == ext)
			}
			return ok
		}
	case Tread:
		fid, off, count := vxU32("fid"), vxU64("offset"), vxU32("count")
		items = []refItem{refU32(fid), refU64(off), refU32(count)}
		pack = func(fc *Fcall) error { return PackTread(fc, fid, off, count) }
		same = func(g *Fcall) bool { return vxAll(g.Fid == fid, g.Offset == off, g.Count == count) }
	case Rread:
		n := D
		if D <= 16 {
			n = vxChoose("ndata", D+1)
		}
		data := vxBytes("data", n)
		items = []refItem{{kind: rkData, cnt: uint32(n), b: data}}
		pack = func(fc *Fcall) error { return PackRread(fc, data) }
		same = func(g *Fcall) bool { return vxAll(g.Count == uint32(n), refBytesEq(g.Data, data)) }
	case Twrite:
		fid, off := vxU32("fid"), vxU64("offset")
		n := D
		if D <= 16 {
			n = vxChoose("ndata", D+1)
		}
		data := vxBytes("data", n)
		// representable on the wire: count == len(data)
		items = []refItem{refU32(fid), refU64(off), {kind: rkData, cnt: uint32(n), b: data}}
		pack = func(fc *Fcall) error { return PackTwrite(fc, fid, off, uint32(n), data) }
		same = func(g *Fcall) bool {
			return vxAll(g.Fid == fid, g.Offset == off, g.Count == uint32(n), refBytesEq(g.Data, data))
		}
	case Rwrite:
		count := vxU32("count")
		items = []refItem{refU32(count)}
		pack = func(fc *Fcall) error { return PackRwrite(fc, count) }
		same = func(g *Fcall) bool { return g.Count == count }
	case Tclunk, Tremove, Tstat:
		fid := vxU32("fid")
		items = []refItem{refU32(fid)}
		switch typ {
		case Tclunk:
			pack = func(fc *Fcall) error { return PackTclunk(fc, fid) }
		case Tremove:
			pack = func(fc *Fcall) error { return PackTremove(fc, fid) }
		default:
			pack = func(fc *Fcall) error { return PackTstat(fc, fid) }
		}
		same = func(g *Fcall) bool { return g.Fid == fid }
	case Rstat:
		d := h.dir("stat", dotu)
		items = []refItem{{kind: rkStatN, d: d}}
		pack = func(fc *Fcall) error { return PackRstat(fc, d, dotu) }
		same = func(g *Fcall) bool { return refDirEq(&g.Dir, d, dotu) }
	case Twstat:
		fid := vxU32("fid")
		d := h.dir("stat", dotu)
		items = []refItem{refU32(fid), {kind: rkStatN, d: d}}
		pack = func(fc *Fcall) error { return PackTwstat(fc, fid, d, dotu) }
		same = func(g *Fcall) bool { return vxAll(g.Fid == fid, refDirEq(&g.Dir, d, dotu)) }
	default:
		vxAssert(false, "harness-unknown-type")
		return
	}

	ref := refEncode(uint8(typ), NOTAG, items, dotu)
	need := len(ref)
	bufsz := need
	switch slack {
	case 0:
		bufsz = need - 1
	case 2:
		bufsz = need + 5
	}
	fc := NewFcall(uint32(bufsz))
	err := pack(fc)
	if slack == 0 {
		vxAssert(err != nil, "small-buffer-refused")
		vxAssert(len(fc.Pkt) == 0, "small-buffer-pkt-untouched")
		vxReach("small")
		return
	}
	vxAssert(err == nil, "pack-ok")
	vxAssert(len(fc.Pkt) == need, "pkt-len==layout-len")
	vxAssert(int(fc.Size) == need, "size-field==len")
	vxAssert(refBytesEq(fc.Pkt, ref), "bytes==layout")
	vxAssert(fc.Type == uint8(typ), "fc.type")
	vxAssert(fc.Tag == NOTAG, "fc.tag")

	g, n, uerr := Unpack(fc.Pkt, dotu)
	vxAssert(uerr == nil, "unpack-ok")
	vxAssert(n == need, "consumed==len")
	vxAssert(vxAll(g.Type == uint8(typ), g.Tag == NOTAG, int(g.Size) == need), "decoded-header")
	vxAssert(same(g), "decoded-fields==input")

	tag := vxU16("tag")
	SetTag(fc, tag)
	ref2 := refEncode(uint8(typ), tag, items, dotu)
	vxAssert(refBytesEq(fc.Pkt, ref2), "settag-bytes")
	vxAssert(fc.Tag == tag, "settag-field")
	g2, _, uerr2 := Unpack(fc.Pkt, dotu)
	vxAssert(uerr2 == nil, "unpack-after-settag")
	vxAssert(vxAll(g2.Tag == tag, same(g2)), "settag-disturbs-nothing")
	vxReach("ok")
}

// Stat records on their own.
func vxH01Stat(dotu bool, B int, long int) {
	h := &vxC01{B: B, long: long}
	d := h.dir("stat", dotu)
	ref := refStat(d, dotu)
	b := PackDir(d, dotu)
	vxAssert(len(b) == len(ref), "packdir-len")
	vxAssert(refBytesEq(b, ref), "packdir-bytes")
	extra := vxChoose("extra", 2) * 3
	in := append(append([]byte{}, b...), vxBytes("tail", extra)...)
	g, rest, amt, err := UnpackDir(in, dotu)
	vxAssert(err == nil, "unpackdir-ok")
	vxAssert(amt == len(ref), "unpackdir-consumed")
	vxAssert(len(rest) == extra, "unpackdir-rest")
	vxAssert(int(g.Size) == len(ref)-2, "stat-size-field")
	vxAssert(refDirEq(g, d, dotu), "unpackdir-fields")
	vxReach("ok")
}

// The two-step Rread form.
func vxH01Rread(D int) {
	c := vxChoose("count", D+1)
	n := vxChoose("n", c+1)
	data := vxBytes("data", c)
	fc := NewFcall(uint32(11 + c + vxChoose("spare", 2)*4))
	err := InitRread(fc, uint32(c))
	vxAssert(err == nil, "initrread-ok")
	vxAssert(len(fc.Data) == c, "initrread-data-len")
	copy(fc.Data, data)
	SetRreadCount(fc, uint32(n))
	ref := refEncode(Rread, NOTAG, []refItem{{kind: rkData, cnt: uint32(n), b: data[:n]}}, false)
	vxAssert(refBytesEq(fc.Pkt, ref), "setrreadcount-bytes")
	vxAssert(vxAll(int(fc.Size) == len(ref), fc.Count == uint32(n), len(fc.Data) == n), "setrreadcount-fields")
	other := NewFcall(uint32(11 + n))
	vxAssert(PackRread(other, data[:n]) == nil, "packrread-ok")
	vxAssert(refBytesEq(other.Pkt, fc.Pkt), "two-step==one-step")
	vxReach("ok")
}
