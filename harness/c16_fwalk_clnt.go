package go9p

// C16 (client part, H16.fwalk) — paths of any depth resolve through Clnt.FWalk to the same object as the path.
//
// Model walk server: the exported tree is a chain root/e1/e2/.../eD (names "a","b",...). Twalk(fid,newfid,names)
// follows the protocol: walk the names from fid's node while they exist; nwname > 0 and nothing walked -> Rerror;
// otherwise Rwalk with one qid per walked name; newfid designates the target only if every name was walked,
// otherwise both fids stay as they were. Tclunk forgets a fid.
// FWalk(path) with n = 0..18 elements (more than 16 need two Twalks, the second continuing in place), of which the
// first `exist` exist; the path is decorated with leading, doubled and trailing slashes.

type vxWalkSrv struct {
	depth   int            // elements e1..e_depth exist
	fids    map[uint32]int // fid -> node (depth in the chain)
	maxNw   int            // largest nwname seen
	nwalk   int
	unknown bool // a request named a fid the server does not have (other than clunking a never-created newfid)
}

func vxChainName(i int) string { return string([]byte{byte('a' + i)}) } // name of element e_{i+1}

func vxChainQid(node int) Qid {
	return Qid{Type: QTDIR, Version: uint32(node), Path: uint64(1000 + node)}
}

func (m *vxWalkSrv) onReq(p *vxPeer, r *vxPReq) {
	b := r.f.body
	switch r.f.typ {
	case Twalk:
		fid, newfid := vxLE32(b), vxLE32(b[4:])
		n := int(vxLE16(b[8:]))
		m.nwalk++
		if n > m.maxNw {
			m.maxNw = n
		}
		node, ok := m.fids[fid]
		if !ok {
			m.unknown = true
			p.send(r, p.errorReply(r, "unknown fid", 9), 0)
			return
		}
		q := b[10:]
		var qs []Qid
		for i := 0; i < n; i++ {
			l := int(vxLE16(q))
			name := string(q[2 : 2+l])
			q = q[2+l:]
			if node < m.depth && name == vxChainName(node) {
				node++
				qs = append(qs, vxChainQid(node))
			} else {
				break
			}
		}
		if n > 0 && len(qs) == 0 {
			p.send(r, p.errorReply(r, "file not found", ENOENT), 0)
			return
		}
		if len(qs) == n {
			m.fids[newfid] = node
		}
		p.send(r, refEncode(Rwalk, r.f.tag, []refItem{{kind: rkNqid, qs: qs}}, p.dotu), 0)
	case Tclunk:
		delete(m.fids, vxLE32(b))
		p.send(r, refEncode(Rclunk, r.f.tag, nil, p.dotu), 0)
	default:
		p.send(r, p.errorReply(r, "model: unexpected request", 22), 0)
	}
}

// n < 0: n ranges over 0..18 (vxChoose). exist ranges over 0..n. style: 0 "a/b/c", 1 "/a/b/c", 2 "//a//b//c/".
func vxH16FWalk(n int, dotu bool) {
	if n < 0 {
		n = vxChoose("n", 19)
	}
	exist := vxChoose("exist", n+1)
	style := vxChoose("style", 3)
	nc := vxNewCConn()
	m := &vxWalkSrv{depth: exist, fids: map[uint32]int{7000: 0}}
	clnt := vxNewClient(nc, 512, dotu, 3)
	vxNewPeer(nc, dotu, m.onReq)
	clnt.Root = &Fid{Clnt: clnt, Fid: 7000, walked: true, Qid: vxChainQid(0)}
	path := ""
	switch style {
	case 1:
		path = "/"
	case 2:
		path = "//"
	}
	for i := 0; i < n; i++ {
		if i > 0 {
			path += "/"
			if style == 2 {
				path += "/"
			}
		}
		path += vxChainName(i)
	}
	if style == 2 && n > 0 {
		path += "/"
	}
	fid, err := clnt.FWalk(path)
	vxAssert(m.maxNw <= 16, "at-most-16-names-per-twalk")
	vxAssert(!m.unknown, "walks-start-from-fids-the-server-has")
	if exist == n {
		vxAssert(err == nil && fid != nil, "existing-path-resolves")
		if err == nil && fid != nil {
			node, ok := m.fids[fid.Fid]
			vxAssert(ok && node == n, "returned-fid-designates-the-object-the-path-names")
			vxAssert(refQidEq(fid.Qid, vxChainQid(n)), "returned-fid-carries-the-objects-qid")
			rn, rok := m.fids[7000]
			vxAssert(rok && rn == 0, "root-fid-untouched")
		}
		vxReach("resolved")
	} else {
		vxAssert(err != nil && fid == nil, "missing-element-yields-an-error")
		rn, rok := m.fids[7000]
		vxAssert(rok && rn == 0, "root-fid-untouched")
		vxReach("missing")
	}
	vxReach("done")
}
