package go9p

// C13 (client half, H13.clnt) — the client parses the same reply stream identically under any segmentation.
//
// n requests are pipelined on one real client through the exported non-blocking entry point (Clnt.Rpcnb, each
// request with its own tag and a buffered Done channel), so that n replies are outstanding at once without n
// goroutines. The reply stream — replies out of request order, of mixed sizes (7 bytes .. exactly msize), with
// symbolic payload bytes — is then delivered cut at positions chosen by vxChoose (every position), or one byte per
// Read, or in one piece. msize is small, so that the receive buffer (8 x msize, advanced past every message and
// replaced when fewer than msize bytes remain) is replaced once or twice within the stream.
// Oracle: whatever the segmentation, every request completes with exactly the reply the stream holds for its tag
// (type, tag, fields, payload bytes; checked after the whole stream was consumed, so that payloads disturbed by
// later bytes are seen); an Rerror becomes an error with its text and number.

type vxSegReq struct {
	r     *Req
	kind  int
	fid   uint32
	tag   uint16
	data  []byte
	text  string
	ecode uint32
}

// mode 0: ncuts cut positions (strictly increasing, every combination; window > 0 limits the distance between
// consecutive cuts to window bytes); mode 1: one byte per Read; mode 2: the whole stream in one segment.
func vxH13Clnt(msize int, n int, ncuts int, window int, mode int, dotu bool) {
	nc := vxNewCConn()
	clnt := vxNewClient(nc, uint32(msize), dotu, 32)
	peer := vxNewPeer(nc, dotu, nil) // records the requests; the replies are scripted below
	reqs := make([]*vxSegReq, n)
	for i := range reqs {
		q := &vxSegReq{kind: i % 4, fid: uint32(200 + i)}
		r := clnt.ReqAlloc()
		r.Tc = clnt.NewFcall()
		r.Done = make(chan *Req, 1)
		var err error
		if q.kind == 1 {
			err = PackTclunk(r.Tc, q.fid)
		} else {
			err = PackTread(r.Tc, q.fid, uint64(i), uint32(msize-11))
		}
		vxAssert(err == nil, "harness-request-packs")
		vxAssert(clnt.Rpcnb(r) == nil, "request-accepted")
		q.r = r
		reqs[i] = q
	}
	vxSettle(func() bool { return peer.synced() >= n })
	peer.sync()
	vxAssert(len(peer.reqs) == n && !peer.dupTag && !peer.badWire, "n-requests-on-the-wire-with-distinct-tags")
	if len(peer.reqs) != n {
		return
	}
	// the reply stream: odd-numbered requests first, then the even-numbered ones
	var order []int
	for i := 1; i < n; i += 2 {
		order = append(order, i)
	}
	for i := 0; i < n; i += 2 {
		order = append(order, i)
	}
	var stream []byte
	for _, i := range order {
		q := reqs[i]
		rq := peer.findReq(q.fid, 0)
		vxAssert(rq != nil, "harness-request-found")
		if rq == nil {
			return
		}
		q.tag = rq.f.tag
		var pkt []byte
		switch q.kind {
		case 0:
			q.data = vxBytes("rdata", 8)
			pkt = refEncode(Rread, q.tag, []refItem{{kind: rkData, cnt: 8, b: q.data}}, dotu)
		case 1:
			pkt = refEncode(Rclunk, q.tag, nil, dotu)
		case 2:
			q.text = vxString("etext", 2)
			q.ecode = vxU32("ecode")
			pkt = peer.errorReply(rq, q.text, q.ecode)
		default:
			// a reply of exactly msize bytes
			q.data = vxBytes("rdata", msize-11)
			pkt = refEncode(Rread, q.tag, []refItem{{kind: rkData, cnt: uint32(msize - 11), b: q.data}}, dotu)
		}
		stream = append(stream, pkt...)
	}
	L := len(stream)
	vxObserve("streamlen", L)
	switch mode {
	case 0:
		prev := 0
		for j := 0; j < ncuts; j++ {
			lo := prev + 1
			hi := L - (ncuts - j)
			span := hi - lo + 1
			if span < 1 {
				vxAssert(false, "harness-stream-too-short-for-cuts")
				return
			}
			if window > 0 && j > 0 && span > window {
				span = window
			}
			c := lo + vxChoose("cut", span)
			nc.push(stream[prev:c])
			prev = c
		}
		nc.push(stream[prev:])
	case 1:
		nc.readMax = 1
		nc.push(stream)
	default:
		nc.push(stream)
	}
	vxSettle(func() bool {
		if nc.bytesRead() != L {
			return false
		}
		for _, q := range reqs {
			if len(q.r.Done) == 0 {
				return false
			}
		}
		return true
	})
	vxAssert(nc.bytesRead() == L, "client-consumed-the-whole-stream")
	for _, q := range reqs {
		var r *Req
		select {
		case r = <-q.r.Done:
		default:
		}
		vxAssert(r == q.r, "every-request-completes-with-its-own-slot")
		if r != q.r {
			continue
		}
		vxAssert(r.Rc != nil, "completion-carries-a-reply")
		if r.Rc == nil {
			continue
		}
		vxAssert(r.Rc.Tag == q.tag, "reply-tag")
		switch q.kind {
		case 0, 3:
			vxAssert(vxAll(r.Rc.Type == Rread, r.Err == nil), "reply-type")
			vxAssert(refBytesEq(r.Rc.Data, q.data), "reply-payload-exact-after-the-whole-stream-was-consumed")
			vxAssert(r.Rc.Count == uint32(len(q.data)), "reply-count")
		case 1:
			vxAssert(vxAll(r.Rc.Type == Rclunk, r.Err == nil), "reply-type")
		case 2:
			vxAssert(r.Rc.Type == Rerror, "reply-type")
			e, ok := r.Err.(*Error)
			vxAssert(ok && e != nil, "rerror-becomes-error")
			if ok && e != nil {
				if dotu {
					vxAssert(vxAll(e.Err == q.text, e.Errornum == q.ecode), "rerror-text-and-number")
				} else {
					vxAssert(e.Err == q.text, "rerror-text-and-number")
				}
			}
		}
	}
	vxReach("done")
}
