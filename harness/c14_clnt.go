package go9p

// C14 (client half, H14.clnt) — Clnt.Read/Write and the File helpers transfer and report exactly the bytes
// requested up to end of file, advancing their offset by that amount; the iounit rule of Open/Create.
//
// The real client (real Rpc, real send/recv goroutines, real codec) talks over the scripted transport to a *model
// file server* that obeys the read/write contract H14.srv establishes for Ufs:
//   Tread(off,count)  -> Rread(file[off : off+n]),  n = min(count, len-off) (0 at/after the end), optionally
//                        shortened to at most srvmax bytes (a short read: legal, never empty before the end);
//   Twrite(off,data)  -> the bytes are spliced into the model file at off (zero-filling a gap), Rwrite(count=n),
//                        n = len(data), optionally shortened to at most srvmax (a short write);
//   Topen             -> Ropen(qid, iounit) with the scripted iounit.
// File content is symbolic (L <= 8 bytes), offsets and counts are symbolic, buffer lengths are chosen (<= 8).
// The oracle is written from the statement: bytes == the corresponding bytes of the file, nothing at/after the
// end, reported counts == bytes transferred, File.offset advanced by exactly that, no request larger than iounit.

import "io"

type vxModelSrv struct {
	data    []byte // current file content
	srvmax  int    // > 0: at most this many bytes per Rread / accepted per Twrite
	iounit  uint32 // reported by Ropen/Rcreate
	limit   uint32 // reference transfer limit: requests must never ask for more
	nread   int
	nwrite  int
	toobig  bool // a Tread/Twrite count exceeded the limit
	badreq  bool // a request the model does not understand / a write beyond the model's capacity
	lastOff uint64
}

const vxModelCap = 24

func (m *vxModelSrv) onReq(p *vxPeer, r *vxPReq) {
	b := r.f.body
	switch r.f.typ {
	case Topen, Tcreate:
		p.send(r, refEncode(r.f.typ+1, r.f.tag, []refItem{refQ(Qid{Type: 0, Version: 1, Path: 2}), refU32(m.iounit)}, p.dotu), 0)
	case Tread:
		off := vxLE64(b[4:])
		cnt := vxLE32(b[12:])
		m.nread++
		m.lastOff = off
		if m.limit > 0 && cnt > m.limit {
			m.toobig = true
		}
		var data []byte
		if off < uint64(len(m.data)) {
			o := int(off)
			n := len(m.data) - o
			if uint64(cnt) < uint64(n) {
				n = int(cnt)
			}
			if m.srvmax > 0 && n > m.srvmax {
				n = m.srvmax
			}
			data = m.data[o : o+n]
		}
		p.send(r, refEncode(Rread, r.f.tag, []refItem{{kind: rkData, cnt: uint32(len(data)), b: data}}, p.dotu), 0)
	case Twrite:
		off := vxLE64(b[4:])
		cnt := vxLE32(b[12:])
		payload := b[16:]
		m.nwrite++
		if m.limit > 0 && cnt > m.limit {
			m.toobig = true
		}
		if cnt != uint32(len(payload)) || off > uint64(vxModelCap-len(payload)) {
			m.badreq = true
			p.send(r, p.errorReply(r, "model: bad write", 22), 0)
			return
		}
		n := len(payload)
		if m.srvmax > 0 && n > m.srvmax {
			n = m.srvmax
		}
		if n > 0 {
			// (a zero-length write moves nothing and does not extend the file)
			o := int(off)
			for len(m.data) < o+n {
				m.data = append(m.data, 0)
			}
			copy(m.data[o:o+n], payload[:n])
		}
		p.send(r, refEncode(Rwrite, r.f.tag, []refItem{refU32(uint32(n))}, p.dotu), 0)
	case Tclunk:
		p.send(r, refEncode(Rclunk, r.f.tag, nil, p.dotu), 0)
	default:
		m.badreq = true
		p.send(r, p.errorReply(r, "model: unexpected request", 22), 0)
	}
}

func vxMin(a, b int) int {
	if a < b {
		return a
	}
	return b
}

const (
	vxC14ClntRead  = 0
	vxC14FileRead  = 1
	vxC14ReadAt    = 2
	vxC14Readn     = 3
	vxC14ClntWrite = 4
	vxC14FileWrite = 5
	vxC14WriteAt   = 6
	vxC14Written   = 7
)

// vxRefIounit: the largest transfer per message after Open: what the server reported, or, when it reports 0 (or
// more than fits a message), what fits the negotiated msize.
func vxRefIounit(srv uint32, msize uint32) uint32 {
	if srv == 0 || srv > msize-IOHDRSZ {
		return msize - IOHDRSZ
	}
	return srv
}

// H14.clnt data: op as above, L = file length, iou = iounit the server reports (0: client derives it from msize:
// msize-IOHDRSZ = 6), srvmax = short-transfer limit of the server (0 none), blen = buffer length.
// Negative arguments range over a set chosen by vxChoose: L -1: 0..8, -2: {0,1,5,8}; iou -1: 0..4; srvmax -1: {0,1,2};
// blen -1: 0..8, -2: {0,3,8}.
func vxH14Clnt(op int, L int, iou int, srvmax int, blen int, dotu bool) {
	const msize = IOHDRSZ + 6
	switch L {
	case -1:
		L = vxChoose("L", 9)
	case -2:
		L = []int{0, 1, 5, 8}[vxChoose("L", 4)]
	}
	if iou < 0 {
		iou = vxChoose("iou", 5)
	}
	if srvmax < 0 {
		srvmax = vxChoose("srvmax", 3)
	}
	switch blen {
	case -1:
		blen = vxChoose("blen", 9)
	case -2:
		blen = []int{0, 3, 8}[vxChoose("blen", 3)]
	}
	nc := vxNewCConn()
	content := vxBytes("file", L)
	orig := make([]byte, L)
	copy(orig, content)
	m := &vxModelSrv{data: append(make([]byte, 0, vxModelCap), content...), srvmax: srvmax, iounit: uint32(iou)}
	clnt := vxNewClient(nc, msize, dotu, 3)
	vxNewPeer(nc, dotu, m.onReq)
	fid := &Fid{Clnt: clnt, Fid: 5, walked: true}
	vxAssert(clnt.Open(fid, ORDWR) == nil, "open-succeeds")
	unit := int(vxRefIounit(uint32(iou), msize))
	vxAssert(fid.Iounit == uint32(unit), "iounit-rule")
	m.limit = uint32(unit)
	per := unit // most bytes one message can move
	if srvmax > 0 && srvmax < per {
		per = srvmax
	}

	switch op {
	case vxC14ClntRead:
		off := vxU64("offset")
		count := vxU32("count")
		got, err := clnt.Read(fid, off, count)
		vxAssert(err == nil, "read-succeeds")
		vxAssert(uint64(len(got)) <= uint64(count), "no-more-than-requested")
		if off >= uint64(L) {
			vxAssert(len(got) == 0, "nothing-at-or-beyond-end-of-file")
			vxReach("eof")
		} else {
			o := int(off)
			want := vxMin(L-o, per)
			if uint64(count) < uint64(want) {
				want = int(count)
			}
			vxAssert(len(got) == want, "read-returns-what-the-server-sent")
			if len(got) <= L-o {
				vxAssert(refBytesEq(got, orig[o:o+len(got)]), "bytes-equal-the-file-at-that-offset")
			}
			vxReach("inside")
		}
	case vxC14FileRead:
		off := vxU64("offset")
		f := FidFile(fid, off)
		pos := off
		for round := 0; round < 2; round++ {
			buf := make([]byte, blen)
			n, err := f.Read(buf)
			if pos >= uint64(L) || blen == 0 {
				vxAssert(n == 0, "nothing-at-or-beyond-end-of-file")
				if blen > 0 {
					vxAssert(err == io.EOF, "read-at-end-of-file-reports-eof")
				}
				vxAssert(f.offset == pos, "offset-unchanged-when-nothing-was-read")
			} else {
				o := int(pos)
				want := vxMin(vxMin(L-o, per), blen)
				vxAssert(err == nil, "read-succeeds")
				vxAssert(n == want, "read-reports-the-bytes-transferred")
				if n >= 0 && n <= blen && n <= L-o {
					vxAssert(refBytesEq(buf[:n], orig[o:o+n]), "bytes-equal-the-file-at-that-offset")
				}
				vxAssert(f.offset == pos+uint64(want), "offset-advanced-by-the-bytes-read")
				pos += uint64(want)
				vxReach("inside")
			}
		}
	case vxC14ReadAt:
		off := vxU64("offset")
		f := FidFile(fid, 3)
		buf := make([]byte, blen)
		n, err := f.ReadAt(buf, int64(off))
		vxAssert(f.offset == 3, "readat-leaves-the-file-offset-alone")
		if off >= uint64(L) || blen == 0 {
			vxAssert(n == 0, "nothing-at-or-beyond-end-of-file")
		} else {
			o := int(off)
			want := vxMin(vxMin(L-o, per), blen)
			vxAssert(err == nil, "read-succeeds")
			vxAssert(n == want, "read-reports-the-bytes-transferred")
			if n >= 0 && n <= blen && n <= L-o {
				vxAssert(refBytesEq(buf[:n], orig[o:o+n]), "bytes-equal-the-file-at-that-offset")
			}
			vxReach("inside")
		}
	case vxC14Readn:
		off := vxU64("offset")
		f := FidFile(fid, 0)
		buf := make([]byte, blen)
		n, _ := f.Readn(buf, off)
		want := 0
		if off < uint64(L) {
			want = vxMin(L-int(off), blen)
		}
		// "Returns the number of bytes read (could be less than len(buf) if end-of-file is reached)"
		vxAssert(n == want, "readn-reports-exactly-the-bytes-up-to-end-of-file")
		if n == want && want > 0 {
			o := int(off)
			vxAssert(refBytesEq(buf[:want], orig[o:o+want]), "bytes-equal-the-file-at-that-offset")
		}
		if want == blen {
			vxReach("full")
		} else {
			vxReach("hit-eof")
		}
	case vxC14ClntWrite, vxC14WriteAt:
		off := vxU64("offset")
		vxAssume(off <= 8)
		data := vxBytes("wdata", blen)
		var n int
		var err error
		f := FidFile(fid, 5)
		if op == vxC14ClntWrite {
			n, err = clnt.Write(fid, data, off)
		} else {
			n, err = f.WriteAt(data, int64(off))
			vxAssert(f.offset == 5, "writeat-leaves-the-file-offset-alone")
		}
		want := vxMin(blen, per)
		vxAssert(err == nil, "write-succeeds")
		vxAssert(n == want, "write-reports-the-bytes-the-server-took")
		vxCheckSplice(m, orig, int(off), data[:want])
		vxReach("written")
	case vxC14FileWrite:
		off := vxU64("offset")
		vxAssume(off <= 4)
		f := FidFile(fid, off)
		pos := int(off)
		ref := append([]byte{}, orig...)
		for round := 0; round < 2; round++ {
			data := vxBytes("wdata", blen)
			n, err := f.Write(data)
			want := vxMin(blen, per)
			vxAssert(err == nil, "write-succeeds")
			vxAssert(n == want, "write-reports-the-bytes-the-server-took")
			vxAssert(f.offset == uint64(pos+want), "offset-advanced-by-the-bytes-written")
			ref = vxSplice(ref, pos, data[:want])
			pos += want
		}
		vxAssert(refBytesEq(m.data, ref), "file-contains-exactly-what-was-written")
		vxReach("written")
	case vxC14Written:
		off := vxU64("offset")
		vxAssume(off <= 8)
		data := vxBytes("wdata", blen)
		f := FidFile(fid, 0)
		n, err := f.Written(data, off)
		vxAssert(err == nil, "write-succeeds")
		vxAssert(n == blen, "written-writes-all-of-the-buffer")
		vxCheckSplice(m, orig, int(off), data)
		if blen > 0 {
			vxAssert(m.nwrite == (blen+per-1)/per, "one-message-per-chunk")
		}
		vxReach("written")
	}
	vxAssert(!m.toobig, "no-request-asks-for-more-than-iounit")
	vxAssert(!m.badreq, "requests-are-well-formed")
	vxReach("done")
}

// vxSplice: the file after writing data at off (a gap is zero-filled; an empty write changes nothing).
func vxSplice(file []byte, off int, data []byte) []byte {
	out := append([]byte{}, file...)
	if len(data) == 0 {
		return out
	}
	for len(out) < off+len(data) {
		out = append(out, 0)
	}
	copy(out[off:], data)
	return out
}

func vxCheckSplice(m *vxModelSrv, orig []byte, off int, data []byte) {
	vxAssert(refBytesEq(m.data, vxSplice(orig, off, data)), "file-contains-exactly-what-was-written")
}

// H14.clnt iounit rule: Open and Create against a server reporting a symbolic iounit, for a chosen msize.
func vxH14Iounit(create bool, msize int, dotu bool) {
	nc := vxNewCConn()
	siou := vxU32("iounit")
	m := &vxModelSrv{iounit: siou}
	clnt := vxNewClient(nc, uint32(msize), dotu, 3)
	vxNewPeer(nc, dotu, m.onReq)
	fid := &Fid{Clnt: clnt, Fid: 5, walked: true}
	var err error
	if create {
		err = clnt.Create(fid, "f", 0644, ORDWR, "")
	} else {
		err = clnt.Open(fid, ORDWR)
	}
	vxAssert(err == nil, "open-succeeds")
	max := uint32(msize) - IOHDRSZ
	vxAssert(vxAll(fid.Iounit > 0, fid.Iounit <= max), "iounit-fits-a-message")
	if siou == 0 {
		vxAssert(fid.Iounit == max, "iounit-derived-from-msize-when-the-server-reports-0")
		vxReach("zero")
	} else if siou <= max {
		vxAssert(fid.Iounit == siou, "iounit-is-what-the-server-reported")
		vxReach("reported")
	} else {
		vxReach("oversized")
	}
	vxReach("done")
}
