package go9p

// Model file system kit (C14–C18): a small in-memory tree that stands in for the kernel behind the os, os/user,
// syscall and (*os.File) functions that Ufs calls. Every call is appended to an observable call log, may be made to
// fail with a symbolic errno wrapped the way the real os package wraps it, and otherwise behaves like the POSIX
// operation on the model tree (lexical resolution only: "", ".", ".." and names; a final symlink is followed one
// step by the calls that follow symlinks).
//
// The stubs are installed by name (vxstub_<mangled callee>); the model they work on is the global vxfs.

import (
	"io"
	"os"
	"os/user"
	"syscall"
	"time"
)

const (
	vxKFile = 0
	vxKDir  = 1
	vxKLink = 2 // symbolic link
)

// errno values, written out (the syscall package's own tables are not consulted)
const (
	vxEPERM     = syscall.Errno(1)
	vxENOENT    = syscall.Errno(2)
	vxEBADF     = syscall.Errno(9)
	vxEEXIST    = syscall.Errno(17)
	vxENOTDIR   = syscall.Errno(20)
	vxEISDIR    = syscall.Errno(21)
	vxEINVAL    = syscall.Errno(22)
	vxENOTEMPTY = syscall.Errno(39)
	vxELOOP     = syscall.Errno(40)
)

// The text of an errno is not the subject of any property; the real table (133 strings indexed by the number)
// would only add one fork per table entry for a symbolic errno.
func vxstub_syscall_Errno_Error(e syscall.Errno) string { return "errno" }

type vxInode struct {
	kind   int         // vxKFile / vxKDir / vxKLink (concrete: it drives the model's own behaviour)
	mode   os.FileMode // what FileInfo.Mode() reports (type bits | permission bits | setuid...); may be symbolic
	smode  uint32      // st_mode reported through Sys()
	size   int64       // what FileInfo.Size() reports
	mtime  int64       // seconds
	atime  int64
	ino    uint64
	uid    uint32
	gid    uint32
	rdev   uint64
	nlink  int
	data   []byte // file content (bytes beyond len(data) and below size read as zero)
	target string // symlink target
	ents   []*vxDirent
	parent *vxInode // directories only; the root is its own parent
}

type vxDirent struct {
	name   string
	in     *vxInode
	exists bool // may be symbolic: "this name is present"
}

// one entry of the call log
type vxFSCall struct {
	op    string
	path  string
	path2 string // second path (symlink target / link source / rename destination)
	flags int
	mode  uint32
	a, b  int64 // numeric arguments (uid/gid, length, atime/mtime seconds, offset/count)
	data  []byte
	err   error
	fault bool // the failure was injected
	mut   bool // the call is a mutating one
}

type vxOpenFile struct {
	in     *vxInode
	path   string
	flags  int
	closed bool
	pos    int64 // the descriptor's own file position (lseek/read; pread and pwrite do not use it)
}

type vxFS struct {
	root    *vxInode
	log     []vxFSCall
	files   map[*os.File]*vxOpenFile
	nextIno uint64

	// fault injection: while budget > 0 every call asks a fresh symbolic boolean whether it fails now
	budget    int
	faultSkip []string // ops that never fail by injection
	quietStat bool     // pure queries (lstat/stat/readlink) are not made to fail once another call has succeeded
	faultOp   string   // op of the (last) injected failure
	faultIdx  int      // its index in the log
	faultErr  syscall.Errno
	nfaults   int

	// called with every path argument of every call before anything else happens (C18's confinement oracle)
	check func(op string, path string)

	// os/user database
	users []*user.User

	maxWrite int64 // WriteAt applies its data to the model only when offset+len <= maxWrite
}

var vxfs *vxFS

func vxNewFS() *vxFS {
	fs := &vxFS{files: make(map[*os.File]*vxOpenFile), nextIno: 100, faultIdx: -1, maxWrite: 16}
	fs.root = &vxInode{kind: vxKDir, mode: os.ModeDir | 0755, smode: syscall.S_IFDIR | 0755, ino: 2, nlink: 2}
	fs.root.parent = fs.root
	fs.users = []*user.User{
		{Uid: "0", Gid: "0", Username: "u0", Name: "u0"},
		{Uid: "1", Gid: "1", Username: "u1", Name: "u1"},
	}
	vxfs = fs
	return fs
}

// ---- building trees ----

func (fs *vxFS) newInode(kind int, perm uint32) *vxInode {
	in := &vxInode{kind: kind, ino: fs.nextIno, nlink: 1}
	fs.nextIno++
	switch kind {
	case vxKDir:
		in.mode = os.ModeDir | os.FileMode(perm&0777)
		in.smode = syscall.S_IFDIR | perm&0777
		in.nlink = 2
	case vxKLink:
		in.mode = os.ModeSymlink | os.FileMode(perm&0777)
		in.smode = syscall.S_IFLNK | perm&0777
	default:
		in.mode = os.FileMode(perm & 0777)
		in.smode = syscall.S_IFREG | perm&0777
	}
	return in
}

func (fs *vxFS) link(dir *vxInode, name string, in *vxInode) *vxDirent {
	d := &vxDirent{name: name, in: in, exists: true}
	dir.ents = append(dir.ents, d)
	if in.kind == vxKDir {
		in.parent = dir
	}
	return d
}

func (fs *vxFS) addDir(dir *vxInode, name string, perm uint32) *vxInode {
	in := fs.newInode(vxKDir, perm)
	fs.link(dir, name, in)
	return in
}

func (fs *vxFS) addFile(dir *vxInode, name string, perm uint32, data []byte) *vxInode {
	in := fs.newInode(vxKFile, perm)
	in.data = data
	in.size = int64(len(data))
	fs.link(dir, name, in)
	return in
}

func (fs *vxFS) addSymlink(dir *vxInode, name string, target string) *vxInode {
	in := fs.newInode(vxKLink, 0777)
	in.target = target
	in.size = int64(len(target))
	fs.link(dir, name, in)
	return in
}

func (fs *vxFS) dirent(dir *vxInode, name string) *vxDirent {
	for _, d := range dir.ents {
		if d.name == name {
			return d
		}
	}
	return nil
}

// ---- lexical path handling ----

func vxSplitPath(p string) []string {
	var out []string
	start := 0
	for i := 0; i <= len(p); i++ {
		if i == len(p) || p[i] == '/' {
			if i > start {
				out = append(out, p[start:i])
			}
			start = i + 1
		}
	}
	return out
}

func vxBaseName(p string) string {
	e := vxSplitPath(p)
	if len(e) == 0 {
		return "/"
	}
	return e[len(e)-1]
}

type vxRes struct {
	in     *vxInode  // the object the path designates (nil if it does not exist)
	parent *vxInode  // directory that holds (or would hold) the last element; nil if the last element is ""/"."/".."
	ent    *vxDirent // its entry in parent (nil if missing)
	name   string    // last element
	errno  syscall.Errno
}

// lookup returns the present entry called name.
func (in *vxInode) lookup(name string) *vxDirent {
	for _, d := range in.ents {
		if d.name == name {
			if d.exists {
				return d
			}
		}
	}
	return nil
}

// walk resolves p starting at cur ("/"-rooted paths start at the root). follow: a symlink in final position
// is followed (at most depth more times). Intermediate symlinks are followed too.
func (fs *vxFS) walk(cur *vxInode, p string, follow bool, depth int) vxRes {
	if len(p) == 0 {
		return vxRes{errno: vxENOENT}
	}
	if p[0] == '/' {
		cur = fs.root
	}
	elems := vxSplitPath(p)
	res := vxRes{in: cur}
	for i, e := range elems {
		last := i == len(elems)-1
		if cur.kind != vxKDir {
			return vxRes{errno: vxENOTDIR}
		}
		if e == "." {
			res = vxRes{in: cur}
			continue
		}
		if e == ".." {
			cur = cur.parent
			res = vxRes{in: cur}
			continue
		}
		d := cur.lookup(e)
		if d == nil {
			if last {
				return vxRes{parent: cur, name: e, errno: vxENOENT}
			}
			return vxRes{errno: vxENOENT}
		}
		if d.in.kind == vxKLink && (!last || follow) {
			if depth <= 0 {
				return vxRes{errno: vxELOOP}
			}
			r := fs.walk(cur, d.in.target, true, depth-1)
			if r.errno != 0 {
				if last {
					// dangling link in final position: the target's own parent/name are what a create would use
					return r
				}
				return vxRes{errno: r.errno}
			}
			if last {
				return r
			}
			cur = r.in
			res = vxRes{in: cur}
			continue
		}
		res = vxRes{in: d.in, parent: cur, ent: d, name: e}
		cur = d.in
	}
	return res
}

func (fs *vxFS) resolve(p string, follow bool) vxRes { return fs.walk(fs.root, p, follow, 2) }

// ---- FileInfo ----

type vxFileInfo struct {
	name  string
	size  int64
	mode  os.FileMode
	mtime int64
	sys   *syscall.Stat_t
}

func (fi *vxFileInfo) Name() string       { return fi.name }
func (fi *vxFileInfo) Size() int64        { return fi.size }
func (fi *vxFileInfo) Mode() os.FileMode  { return fi.mode }
func (fi *vxFileInfo) ModTime() time.Time { return time.Unix(fi.mtime, 0) }
func (fi *vxFileInfo) IsDir() bool        { return fi.mode&os.ModeDir != 0 }
func (fi *vxFileInfo) Sys() interface{}   { return fi.sys }

func vxInfoOf(name string, in *vxInode) os.FileInfo {
	st := &syscall.Stat_t{Ino: in.ino, Uid: in.uid, Gid: in.gid, Mode: in.smode, Rdev: in.rdev}
	return &vxFileInfo{name: name, size: in.size, mode: in.mode, mtime: in.mtime, sys: st}
}

// ---- call log and fault injection ----

func (fs *vxFS) begin(c vxFSCall) int {
	vxJitter()
	if fs.check != nil {
		fs.check(c.op, c.path)
		if c.op == "link" || c.op == "rename" {
			fs.check(c.op, c.path2)
		}
	}
	fs.log = append(fs.log, c)
	return len(fs.log) - 1
}

// fault decides whether call i fails by injection.
func (fs *vxFS) fault(i int) (syscall.Errno, bool) {
	if fs.budget <= 0 {
		return 0, false
	}
	op := fs.log[i].op
	for _, s := range fs.faultSkip {
		if s == op {
			return 0, false
		}
	}
	if fs.quietStat && (op == "lstat" || op == "stat" || op == "readlink") {
		// environment assumption: an object that was just opened / created / changed can be stat'ed
		for j := 0; j < i; j++ {
			c := fs.log[j]
			if c.err == nil && c.op != "lstat" && c.op != "stat" && c.op != "readlink" && c.op != "lookup" && c.op != "lookupid" {
				return 0, false
			}
		}
	}
	if !vxBool("fault") {
		return 0, false
	}
	fs.budget--
	e := syscall.Errno(vxU16("errno"))
	vxAssume(vxAll(e != 0, e < 4096))
	fs.faultOp = op
	fs.faultIdx = i
	fs.faultErr = e
	fs.nfaults++
	fs.log[i].fault = true
	return e, true
}

func (fs *vxFS) fail(i int, err error) error {
	fs.log[i].err = err
	return err
}

func vxPathErr(op, path string, e syscall.Errno) error {
	return &os.PathError{Op: op, Path: path, Err: e}
}

func vxLinkErr(op, oldp, newp string, e syscall.Errno) error {
	return &os.LinkError{Op: op, Old: oldp, New: newp, Err: e}
}

// succeeded reports how many logged calls with the mutating mark returned nil.
func (fs *vxFS) mutationsDone() int {
	n := 0
	for _, c := range fs.log {
		if c.mut && c.err == nil {
			n++
		}
	}
	return n
}

func (fs *vxFS) ncalls(op string) int {
	n := 0
	for _, c := range fs.log {
		if c.op == op {
			n++
		}
	}
	return n
}

// ---- tree snapshots (for "tree unchanged") ----

type vxSnapEnt struct {
	depth  int
	name   string
	in     *vxInode
	kind   int
	mode   os.FileMode
	size   int64
	mtime  int64
	uid    uint32
	gid    uint32
	target string
	data   []byte
	exists bool
}

func (fs *vxFS) snapInto(out []vxSnapEnt, dir *vxInode, depth int) []vxSnapEnt {
	for _, d := range dir.ents {
		cp := make([]byte, len(d.in.data))
		copy(cp, d.in.data)
		out = append(out, vxSnapEnt{depth: depth, name: d.name, in: d.in, kind: d.in.kind, mode: d.in.mode, size: d.in.size,
			mtime: d.in.mtime, uid: d.in.uid, gid: d.in.gid, target: d.in.target, data: cp, exists: d.exists})
		if d.in.kind == vxKDir && depth < 6 {
			out = fs.snapInto(out, d.in, depth+1)
		}
	}
	return out
}

func (fs *vxFS) snapshot() []vxSnapEnt { return fs.snapInto(nil, fs.root, 0) }

// vxSameTree: same names in the same places designating the same objects with the same attributes and contents.
func vxSameTree(a, b []vxSnapEnt) bool {
	if len(a) != len(b) {
		return false
	}
	ok := true
	for i := range a {
		x, y := a[i], b[i]
		if x.in != y.in || x.depth != y.depth || x.kind != y.kind || len(x.data) != len(y.data) {
			return false
		}
		ok = vxAll(ok, x.name == y.name, x.exists == y.exists, x.mode == y.mode, x.size == y.size, x.mtime == y.mtime,
			x.uid == y.uid, x.gid == y.gid, x.target == y.target, refBytesEq(x.data, y.data))
	}
	return ok
}

// ---- os ----

func (fs *vxFS) statCall(op string, name string, follow bool) (os.FileInfo, error) {
	i := fs.begin(vxFSCall{op: op, path: name})
	if e, f := fs.fault(i); f {
		return nil, fs.fail(i, vxPathErr(op, name, e))
	}
	r := fs.resolve(name, follow)
	if r.errno != 0 {
		return nil, fs.fail(i, vxPathErr(op, name, r.errno))
	}
	return vxInfoOf(vxBaseName(name), r.in), nil
}

func vxstub_os_Lstat(name string) (os.FileInfo, error) { return vxfs.statCall("lstat", name, false) }
func vxstub_os_Stat(name string) (os.FileInfo, error)  { return vxfs.statCall("stat", name, true) }

func (fs *vxFS) newHandle(in *vxInode, path string, flags int) *os.File {
	f := new(os.File)
	fs.files[f] = &vxOpenFile{in: in, path: path, flags: flags}
	return f
}

func vxstub_os_OpenFile(name string, flag int, perm os.FileMode) (*os.File, error) {
	fs := vxfs
	i := fs.begin(vxFSCall{op: "open", path: name, flags: flag, mode: uint32(perm), mut: flag&(os.O_CREATE|os.O_TRUNC) != 0})
	if e, f := fs.fault(i); f {
		return nil, fs.fail(i, vxPathErr("open", name, e))
	}
	r := fs.resolve(name, true)
	if r.errno != 0 {
		if r.errno != vxENOENT || r.parent == nil || flag&os.O_CREATE == 0 {
			return nil, fs.fail(i, vxPathErr("open", name, r.errno))
		}
		in := fs.newInode(vxKFile, uint32(perm.Perm()))
		in.mode |= perm & (os.ModeSetuid | os.ModeSetgid | os.ModeSticky)
		fs.link(r.parent, r.name, in)
		return fs.newHandle(in, name, flag), nil
	}
	if flag&os.O_CREATE != 0 && flag&os.O_EXCL != 0 {
		return nil, fs.fail(i, vxPathErr("open", name, vxEEXIST))
	}
	if r.in.kind == vxKDir && flag&(os.O_WRONLY|os.O_RDWR|os.O_TRUNC|os.O_CREATE) != 0 {
		return nil, fs.fail(i, vxPathErr("open", name, vxEISDIR))
	}
	if flag&os.O_TRUNC != 0 {
		r.in.data = nil
		r.in.size = 0
	} else {
		fs.log[i].mut = false // an existing object opened without truncation: nothing changes
	}
	return fs.newHandle(r.in, name, flag), nil
}

func vxstub_os_Mkdir(name string, perm os.FileMode) error {
	fs := vxfs
	i := fs.begin(vxFSCall{op: "mkdir", path: name, mode: uint32(perm), mut: true})
	if e, f := fs.fault(i); f {
		return fs.fail(i, vxPathErr("mkdir", name, e))
	}
	r := fs.resolve(name, false)
	if r.errno == 0 {
		return fs.fail(i, vxPathErr("mkdir", name, vxEEXIST))
	}
	if r.errno != vxENOENT || r.parent == nil {
		return fs.fail(i, vxPathErr("mkdir", name, r.errno))
	}
	fs.addDir(r.parent, r.name, uint32(perm.Perm()))
	return nil
}

func vxstub_os_Symlink(oldname, newname string) error {
	fs := vxfs
	i := fs.begin(vxFSCall{op: "symlink", path: newname, path2: oldname, mut: true})
	if e, f := fs.fault(i); f {
		return fs.fail(i, vxLinkErr("symlink", oldname, newname, e))
	}
	r := fs.resolve(newname, false)
	if r.errno == 0 {
		return fs.fail(i, vxLinkErr("symlink", oldname, newname, vxEEXIST))
	}
	if r.errno != vxENOENT || r.parent == nil {
		return fs.fail(i, vxLinkErr("symlink", oldname, newname, r.errno))
	}
	fs.addSymlink(r.parent, r.name, oldname)
	return nil
}

func vxstub_os_Link(oldname, newname string) error {
	fs := vxfs
	i := fs.begin(vxFSCall{op: "link", path: newname, path2: oldname, mut: true})
	if e, f := fs.fault(i); f {
		return fs.fail(i, vxLinkErr("link", oldname, newname, e))
	}
	o := fs.resolve(oldname, false)
	if o.errno != 0 {
		return fs.fail(i, vxLinkErr("link", oldname, newname, o.errno))
	}
	if o.in.kind == vxKDir {
		return fs.fail(i, vxLinkErr("link", oldname, newname, vxEPERM))
	}
	r := fs.resolve(newname, false)
	if r.errno == 0 {
		return fs.fail(i, vxLinkErr("link", oldname, newname, vxEEXIST))
	}
	if r.errno != vxENOENT || r.parent == nil {
		return fs.fail(i, vxLinkErr("link", oldname, newname, r.errno))
	}
	o.in.nlink++
	fs.link(r.parent, r.name, o.in)
	return nil
}

func (fs *vxFS) unlink(dir *vxInode, d *vxDirent) {
	var keep []*vxDirent
	for _, x := range dir.ents {
		if x != d {
			keep = append(keep, x)
		}
	}
	dir.ents = keep
	d.in.nlink--
}

func vxstub_os_Remove(name string) error {
	fs := vxfs
	i := fs.begin(vxFSCall{op: "remove", path: name, mut: true})
	if e, f := fs.fault(i); f {
		return fs.fail(i, vxPathErr("remove", name, e))
	}
	r := fs.resolve(name, false)
	if r.errno != 0 {
		return fs.fail(i, vxPathErr("remove", name, r.errno))
	}
	if r.ent == nil {
		return fs.fail(i, vxPathErr("remove", name, vxEINVAL)) // ".", ".." or the root
	}
	if r.in.kind == vxKDir {
		for _, d := range r.in.ents {
			if d.exists {
				return fs.fail(i, vxPathErr("remove", name, vxENOTEMPTY))
			}
		}
	}
	fs.unlink(r.parent, r.ent)
	return nil
}

// unlink(2) and rmdir(2), the two halves of remove(3): each refuses the other's kind of object
func (fs *vxFS) removeKind(op string, name string, wantDir bool) error {
	i := fs.begin(vxFSCall{op: op, path: name, mut: true})
	if e, f := fs.fault(i); f {
		fs.fail(i, vxPathErr(op, name, e))
		return e
	}
	r := fs.resolve(name, false)
	if r.errno != 0 {
		fs.fail(i, vxPathErr(op, name, r.errno))
		return r.errno
	}
	if r.ent == nil {
		fs.fail(i, vxPathErr(op, name, vxEINVAL))
		return vxEINVAL
	}
	if (r.in.kind == vxKDir) != wantDir {
		e := vxEISDIR
		if wantDir {
			e = vxENOTDIR
		}
		fs.fail(i, vxPathErr(op, name, e))
		return e
	}
	if wantDir {
		for _, d := range r.in.ents {
			if d.exists {
				fs.fail(i, vxPathErr(op, name, vxENOTEMPTY))
				return vxENOTEMPTY
			}
		}
	}
	fs.unlink(r.parent, r.ent)
	return nil
}

func vxstub_syscall_Unlink(name string) error { return vxfs.removeKind("unlink", name, false) }
func vxstub_syscall_Rmdir(name string) error  { return vxfs.removeKind("rmdir", name, true) }

func vxstub_os_Chmod(name string, mode os.FileMode) error {
	fs := vxfs
	i := fs.begin(vxFSCall{op: "chmod", path: name, mode: uint32(mode), mut: true})
	if e, f := fs.fault(i); f {
		return fs.fail(i, vxPathErr("chmod", name, e))
	}
	r := fs.resolve(name, true)
	if r.errno != 0 {
		return fs.fail(i, vxPathErr("chmod", name, r.errno))
	}
	const bits = os.ModePerm | os.ModeSetuid | os.ModeSetgid | os.ModeSticky
	r.in.mode = r.in.mode&^bits | mode&bits
	r.in.smode = r.in.smode&^0777 | uint32(mode.Perm())
	return nil
}

func vxstub_os_Chown(name string, uid, gid int) error {
	fs := vxfs
	i := fs.begin(vxFSCall{op: "chown", path: name, a: int64(uid), b: int64(gid), mut: true})
	if e, f := fs.fault(i); f {
		return fs.fail(i, vxPathErr("chown", name, e))
	}
	r := fs.resolve(name, true)
	if r.errno != 0 {
		return fs.fail(i, vxPathErr("chown", name, r.errno))
	}
	// the kernel takes 32-bit ids; all-ones means "leave unchanged"
	if uint32(uid) != 0xFFFFFFFF {
		r.in.uid = uint32(uid)
	}
	if uint32(gid) != 0xFFFFFFFF {
		r.in.gid = uint32(gid)
	}
	return nil
}

func vxstub_os_Truncate(name string, size int64) error {
	fs := vxfs
	i := fs.begin(vxFSCall{op: "truncate", path: name, a: size, mut: true})
	if e, f := fs.fault(i); f {
		return fs.fail(i, vxPathErr("truncate", name, e))
	}
	r := fs.resolve(name, true)
	if r.errno != 0 {
		return fs.fail(i, vxPathErr("truncate", name, r.errno))
	}
	if r.in.kind == vxKDir {
		return fs.fail(i, vxPathErr("truncate", name, vxEISDIR))
	}
	if size < 0 {
		return fs.fail(i, vxPathErr("truncate", name, vxEINVAL))
	}
	if len(r.in.data) > 0 {
		if size < int64(len(r.in.data)) {
			r.in.data = r.in.data[:int(size)]
		}
	}
	r.in.size = size
	return nil
}

func vxstub_os_Chtimes(name string, atime time.Time, mtime time.Time) error {
	fs := vxfs
	i := fs.begin(vxFSCall{op: "chtimes", path: name, a: atime.Unix(), b: mtime.Unix(), mut: true})
	if e, f := fs.fault(i); f {
		return fs.fail(i, vxPathErr("chtimes", name, e))
	}
	r := fs.resolve(name, true)
	if r.errno != 0 {
		return fs.fail(i, vxPathErr("chtimes", name, r.errno))
	}
	r.in.atime = atime.Unix()
	r.in.mtime = mtime.Unix()
	return nil
}

func vxstub_os_Readlink(name string) (string, error) {
	fs := vxfs
	i := fs.begin(vxFSCall{op: "readlink", path: name})
	if e, f := fs.fault(i); f {
		return "", fs.fail(i, vxPathErr("readlink", name, e))
	}
	r := fs.resolve(name, false)
	if r.errno != 0 {
		return "", fs.fail(i, vxPathErr("readlink", name, r.errno))
	}
	if r.in.kind != vxKLink {
		return "", fs.fail(i, vxPathErr("readlink", name, vxEINVAL))
	}
	return r.in.target, nil
}

// syscall.Rename returns the bare errno.
// os.Rename differs from rename(2): it refuses an existing directory as the target (EEXIST) before calling it.
func vxstub_os_Rename(from, to string) error {
	fs := vxfs
	if r := fs.resolve(to, false); r.errno == 0 && r.in != nil && r.in.kind == vxKDir {
		if o := fs.resolve(from, false); o.errno != 0 || o.in != r.in {
			i := fs.begin(vxFSCall{op: "rename", path: from, path2: to, mut: true})
			return fs.fail(i, vxLinkErr("rename", from, to, vxEEXIST))
		}
	}
	if err := vxstub_syscall_Rename(from, to); err != nil {
		if e, ok := err.(syscall.Errno); ok {
			return vxLinkErr("rename", from, to, e)
		}
		return err
	}
	return nil
}

func vxstub_syscall_Rename(from, to string) error {
	fs := vxfs
	i := fs.begin(vxFSCall{op: "rename", path: from, path2: to, mut: true})
	if e, f := fs.fault(i); f {
		return fs.fail(i, e)
	}
	o := fs.resolve(from, false)
	if o.errno != 0 {
		return fs.fail(i, o.errno)
	}
	if o.ent == nil {
		return fs.fail(i, vxEINVAL)
	}
	r := fs.resolve(to, false)
	// rename(2): a directory cannot be moved into itself or one of its own subdirectories (EINVAL)
	if o.in.kind == vxKDir {
		for p := r.parent; p != nil; p = p.parent {
			if p == o.in {
				return fs.fail(i, vxEINVAL)
			}
			if p.parent == p {
				break // the model's root is its own parent
			}
		}
	}
	if r.errno != 0 {
		if r.errno != vxENOENT || r.parent == nil {
			return fs.fail(i, r.errno)
		}
	} else {
		if r.ent == nil {
			return fs.fail(i, vxEINVAL)
		}
		if r.in == o.in {
			return nil // same object: nothing to do
		}
		if r.in.kind == vxKDir {
			if o.in.kind != vxKDir {
				return fs.fail(i, vxEISDIR)
			}
			for _, d := range r.in.ents {
				if d.exists {
					return fs.fail(i, vxENOTEMPTY)
				}
			}
		} else if o.in.kind == vxKDir {
			return fs.fail(i, vxENOTDIR)
		}
		fs.unlink(r.parent, r.ent)
	}
	fs.unlink(o.parent, o.ent)
	o.in.nlink++
	fs.link(r.parent, r.name, o.in)
	return nil
}

// ---- (*os.File) ----

type vxPlainErr struct{ s string }

func (e *vxPlainErr) Error() string { return e.s }

var vxErrClosed error = &vxPlainErr{"file already closed"}
var vxErrInvalid error = &vxPlainErr{"invalid argument"}
var vxErrNegOff error = &vxPlainErr{"negative offset"}

func (fs *vxFS) handle(f *os.File) *vxOpenFile {
	if f == nil {
		return nil
	}
	return fs.files[f]
}

func vxstub_os_File_Close(f *os.File) error {
	fs := vxfs
	h := fs.handle(f)
	if h == nil {
		fs.begin(vxFSCall{op: "close", path: "?", err: vxErrInvalid})
		return vxErrInvalid
	}
	i := fs.begin(vxFSCall{op: "close", path: h.path})
	if h.closed {
		return fs.fail(i, &os.PathError{Op: "close", Path: h.path, Err: vxErrClosed})
	}
	h.closed = true
	if e, ff := fs.fault(i); ff {
		return fs.fail(i, vxPathErr("close", h.path, e))
	}
	return nil
}

// pathOf: where the object is in the tree now (a descriptor follows its file through renames)
func (fs *vxFS) pathOf(dir *vxInode, prefix string, in *vxInode, depth int) string {
	for _, d := range dir.ents {
		if !d.exists {
			continue
		}
		if d.in == in {
			return prefix + "/" + d.name
		}
		if d.in.kind == vxKDir && depth > 0 {
			if p := fs.pathOf(d.in, prefix+"/"+d.name, in, depth-1); p != "" {
				return p
			}
		}
	}
	return ""
}

// ftruncate(2): needs a descriptor open for writing (EINVAL otherwise); logged as a truncate of the file's current path
func vxstub_os_File_Truncate(f *os.File, size int64) error {
	fs := vxfs
	h := fs.handle(f)
	if h != nil {
		if p := fs.pathOf(fs.root, "", h.in, 6); p != "" {
			h.path = p
		}
	}
	if h == nil {
		fs.begin(vxFSCall{op: "truncate", path: "?", a: size, mut: true, err: vxErrInvalid})
		return vxErrInvalid
	}
	i := fs.begin(vxFSCall{op: "truncate", path: h.path, a: size, mut: true})
	if h.closed {
		return fs.fail(i, &os.PathError{Op: "truncate", Path: h.path, Err: vxErrClosed})
	}
	if e, ff := fs.fault(i); ff {
		return fs.fail(i, vxPathErr("truncate", h.path, e))
	}
	if h.flags&(os.O_WRONLY|os.O_RDWR) == 0 || h.in.kind == vxKDir || size < 0 {
		return fs.fail(i, vxPathErr("truncate", h.path, vxEINVAL))
	}
	if int64(len(h.in.data)) > size {
		h.in.data = h.in.data[:int(size)]
	}
	h.in.size = size
	return nil
}

func vxstub_os_File_ReadAt(f *os.File, b []byte, off int64) (int, error) {
	defer vxLibWrite(b) // the file system fills the caller's buffer
	fs := vxfs
	h := fs.handle(f)
	if h == nil {
		fs.begin(vxFSCall{op: "readat", path: "?", err: vxErrInvalid})
		return 0, vxErrInvalid
	}
	i := fs.begin(vxFSCall{op: "readat", path: h.path, a: off, b: int64(len(b))})
	if h.closed {
		return 0, fs.fail(i, &os.PathError{Op: "read", Path: h.path, Err: vxErrClosed})
	}
	if off < 0 {
		return 0, fs.fail(i, &os.PathError{Op: "readat", Path: h.path, Err: vxErrNegOff})
	}
	if e, ff := fs.fault(i); ff {
		return 0, fs.fail(i, vxPathErr("read", h.path, e))
	}
	if h.in.kind == vxKDir {
		return 0, fs.fail(i, vxPathErr("read", h.path, vxEISDIR))
	}
	if len(b) == 0 {
		return 0, nil
	}
	L := int64(len(h.in.data))
	if off >= L {
		fs.log[i].err = io.EOF
		return 0, io.EOF
	}
	n := copy(b, h.in.data[int(off):])
	if n < len(b) {
		fs.log[i].err = io.EOF
		return n, io.EOF
	}
	return n, nil
}

// lseek(2) + read(2): positional state shared by everybody who uses the descriptor
func vxstub_os_File_Seek(f *os.File, off int64, whence int) (int64, error) {
	fs := vxfs
	h := fs.handle(f)
	if h == nil {
		fs.begin(vxFSCall{op: "seek", path: "?", err: vxErrInvalid})
		return 0, vxErrInvalid
	}
	i := fs.begin(vxFSCall{op: "seek", path: h.path, a: off, b: int64(whence)})
	if h.closed {
		return 0, fs.fail(i, &os.PathError{Op: "seek", Path: h.path, Err: vxErrClosed})
	}
	switch whence {
	case io.SeekCurrent:
		off += h.pos
	case io.SeekEnd:
		off += int64(len(h.in.data))
	}
	if off < 0 {
		return 0, fs.fail(i, vxPathErr("seek", h.path, vxEINVAL))
	}
	h.pos = off
	return off, nil
}

func vxstub_os_File_Read(f *os.File, b []byte) (int, error) {
	defer vxLibWrite(b)
	fs := vxfs
	h := fs.handle(f)
	if h == nil {
		fs.begin(vxFSCall{op: "read", path: "?", err: vxErrInvalid})
		return 0, vxErrInvalid
	}
	i := fs.begin(vxFSCall{op: "read", path: h.path, a: h.pos, b: int64(len(b))})
	if h.closed {
		return 0, fs.fail(i, &os.PathError{Op: "read", Path: h.path, Err: vxErrClosed})
	}
	if e, ff := fs.fault(i); ff {
		return 0, fs.fail(i, vxPathErr("read", h.path, e))
	}
	if h.in.kind == vxKDir {
		return 0, fs.fail(i, vxPathErr("read", h.path, vxEISDIR))
	}
	if len(b) == 0 {
		return 0, nil
	}
	if h.pos >= int64(len(h.in.data)) {
		fs.log[i].err = io.EOF
		return 0, io.EOF
	}
	n := copy(b, h.in.data[int(h.pos):])
	h.pos += int64(n)
	return n, nil
}

func vxstub_os_File_WriteAt(f *os.File, b []byte, off int64) (int, error) {
	vxLibRead(b) // the file system reads the caller's bytes
	fs := vxfs
	h := fs.handle(f)
	if h == nil {
		fs.begin(vxFSCall{op: "writeat", path: "?", err: vxErrInvalid})
		return 0, vxErrInvalid
	}
	cp := make([]byte, len(b))
	copy(cp, b)
	i := fs.begin(vxFSCall{op: "writeat", path: h.path, a: off, b: int64(len(b)), data: cp, mut: true})
	if h.closed {
		return 0, fs.fail(i, &os.PathError{Op: "write", Path: h.path, Err: vxErrClosed})
	}
	if off < 0 {
		return 0, fs.fail(i, &os.PathError{Op: "writeat", Path: h.path, Err: vxErrNegOff})
	}
	if e, ff := fs.fault(i); ff {
		return 0, fs.fail(i, vxPathErr("write", h.path, e))
	}
	if h.flags&(os.O_WRONLY|os.O_RDWR) == 0 {
		return 0, fs.fail(i, vxPathErr("write", h.path, vxEBADF))
	}
	if len(b) == 0 {
		return 0, nil
	}
	if off > fs.maxWrite-int64(len(b)) {
		// far away: only the size is tracked
		if off+int64(len(b)) > h.in.size {
			h.in.size = off + int64(len(b))
		}
		return len(b), nil
	}
	o := int(off)
	for len(h.in.data) < o+len(b) {
		h.in.data = append(h.in.data, 0)
	}
	copy(h.in.data[o:], b)
	if int64(len(h.in.data)) > h.in.size {
		h.in.size = int64(len(h.in.data))
	}
	return len(b), nil
}

func vxstub_os_File_Readdir(f *os.File, n int) ([]os.FileInfo, error) {
	fs := vxfs
	h := fs.handle(f)
	if h == nil {
		fs.begin(vxFSCall{op: "readdir", path: "?", err: vxErrInvalid})
		return nil, vxErrInvalid
	}
	i := fs.begin(vxFSCall{op: "readdir", path: h.path, a: int64(n)})
	if h.closed {
		return nil, fs.fail(i, &os.PathError{Op: "readdir", Path: h.path, Err: vxErrClosed})
	}
	if e, ff := fs.fault(i); ff {
		return nil, fs.fail(i, vxPathErr("readdirent", h.path, e))
	}
	if h.in.kind != vxKDir {
		return nil, fs.fail(i, vxPathErr("readdirent", h.path, vxENOTDIR))
	}
	out := []os.FileInfo{}
	for _, d := range h.in.ents {
		if d.exists {
			out = append(out, vxInfoOf(d.name, d.in))
		}
	}
	return out, nil
}

// ---- os/user ----

func vxstub_os_user_LookupId(uid string) (*user.User, error) {
	fs := vxfs
	i := fs.begin(vxFSCall{op: "lookupid", path: uid})
	for _, u := range fs.users {
		if u.Uid == uid {
			return u, nil
		}
	}
	return nil, fs.fail(i, &vxPlainErr{"user: unknown userid " + uid})
}

func vxstub_os_user_Lookup(name string) (*user.User, error) {
	fs := vxfs
	i := fs.begin(vxFSCall{op: "lookup", path: name})
	for _, u := range fs.users {
		if u.Username == name {
			return u, nil
		}
	}
	return nil, fs.fail(i, user.UnknownUserError(name))
}

// ---- Ufs on the model: server, connection, fids, one request at a time ----

type vxUfsKit struct {
	ufs   *Ufs
	conn  *Conn
	fs    *vxFS
	users *vxUsersT
	tag   uint16
}

const vxRoot = "/r"

// vxNewUfsKit: a Ufs exporting /r of a fresh model tree (/r exists and is an empty directory), one connection.
func vxNewUfsKit(dotu bool, msize uint32) *vxUfsKit {
	k := new(vxUfsKit)
	k.fs = vxNewFS()
	k.fs.addDir(k.fs.root, "r", 0755)
	k.users = &vxUsersT{u0: &vxUserT{0, "u0"}, u1: &vxUserT{1, "u1"}}
	ufs := new(Ufs)
	ufs.Root = vxRoot
	ufs.Dotu = true
	ufs.Msize = msize
	ufs.Upool = k.users
	ufs.Log = &Logger{}
	vxAssert(ufs.Start(ufs), "ufs-start")
	ufs.Msize = msize
	k.ufs = ufs
	k.conn = &Conn{
		Srv:     &ufs.Srv,
		Msize:   msize,
		Dotu:    dotu,
		fidpool: make(map[uint32]*SrvFid),
		reqs:    make(map[uint16]*SrvReq),
		reqout:  make(chan *SrvReq, 8),
		rchan:   make(chan *Fcall, 8),
	}
	k.tag = 1
	return k
}

func (k *vxUfsKit) rootDir() *vxInode { return k.fs.dirent(k.fs.root, "r").in }

// addFid installs a fid designating host path p, exactly as attach + walks would leave it.
func (k *vxUfsKit) addFid(no uint32, p string, qtype uint8) (*SrvFid, *ufsFid) {
	f := k.conn.FidNew(no)
	f.User = k.users.u1
	f.Type = qtype
	uf := &ufsFid{path: p}
	f.Aux = uf
	return f, uf
}

// openFid marks the fid open the way Topen/Tcreate leave it (handle on the model object at its path).
func (k *vxUfsKit) openFid(f *SrvFid, omode uint8) {
	uf := f.Aux.(*ufsFid)
	r := k.fs.resolve(uf.path, true)
	f.opened = true
	f.Omode = omode
	if r.errno == 0 {
		uf.file = k.fs.newHandle(r.in, uf.path, omode2ref(omode))
	}
}

// run processes one request and returns its single reply (nil if there is not exactly one).
func (k *vxUfsKit) run(tc *Fcall, bufsz uint32) *Fcall {
	tc.Tag = k.tag
	k.tag++
	req := &SrvReq{Tc: tc, Rc: NewFcall(bufsz), Conn: k.conn}
	k.conn.Lock()
	req.next = k.conn.reqs[tc.Tag]
	k.conn.reqs[tc.Tag] = req
	if req.next != nil {
		req.next.prev = req
	}
	k.conn.Unlock()
	req.Process()
	var rs []*SrvReq
	for more := true; more; {
		select {
		case q := <-k.conn.reqout:
			rs = append(rs, q)
		default:
			more = false
		}
	}
	vxAssert(len(rs) == 1, "exactly-one-reply")
	if len(rs) != 1 {
		return nil
	}
	SetTag(rs[0].Rc, tc.Tag) // what Conn.send does before writing
	return rs[0].Rc
}

// reference table for open flags, from the protocol text: low two bits select the access mode
// (OEXEC opens for reading), 0x10 asks for truncation.
func omode2ref(m uint8) int {
	fl := os.O_RDONLY
	switch m & 3 {
	case 1:
		fl = os.O_WRONLY
	case 2:
		fl = os.O_RDWR
	}
	if m&0x10 != 0 {
		fl |= os.O_TRUNC
	}
	return fl
}

// vxLexResolve returns the element list of the lexically resolved absolute path ("/" = empty list). Used to compare
// the spelling of paths (C16/C17); C18 judges confinement with its own resolver (refInside in c18_confine.go).
func vxLexResolve(p string) []string {
	var stack []string
	for _, e := range vxSplitPath(p) {
		if e == "." {
			continue
		}
		if e == ".." {
			if len(stack) > 0 {
				stack = stack[:len(stack)-1]
			}
			continue
		}
		stack = append(stack, e)
	}
	return stack
}

func vxSamePath(a, b string) bool {
	x, y := vxLexResolve(a), vxLexResolve(b)
	if len(x) != len(y) {
		return false
	}
	for i := range x {
		if x[i] != y[i] {
			return false
		}
	}
	return true
}

// vxMetaAgrees: the relation C16 states between what is reported for an object (a stat record / qid) and the
// object itself: directory and symlink bits, length, permission bits, mtime, name, qid path. Fields the statement
// does not mention (qid version, atime, owner names, dev/type) are not compared. DMSYMLINK exists only in 9P2000.u.
func vxMetaAgrees(d *Dir, name string, in *vxInode, dotu bool) bool {
	isDir := in.mode&os.ModeDir != 0
	isLink := in.mode&os.ModeSymlink != 0
	ok := vxAll(
		(d.Qid.Type&QTDIR != 0) == isDir,
		(d.Mode&DMDIR != 0) == isDir,
		(d.Qid.Type&QTSYMLINK != 0) == isLink,
		d.Length == uint64(in.size),
		d.Mode&0777 == uint32(in.mode)&0777,
		d.Mtime == uint32(in.mtime),
		d.Name == name,
		d.Qid.Path == in.ino)
	if dotu {
		ok = vxAll(ok, (d.Mode&DMSYMLINK != 0) == isLink)
	}
	return ok
}

// vxKindType: the qid type bits that go with a model object kind.
func vxKindType(kind int) uint8 {
	switch kind {
	case vxKDir:
		return QTDIR
	case vxKLink:
		return QTSYMLINK
	}
	return 0
}
