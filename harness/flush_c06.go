package go9p

// H06.flush: a Tflush with any old tag arrives on a live session while a request is held inside the implementation
// (so the flush either names it and has to wait for it, names itself, or names nothing), with and without a FlushOp;
// then the held request returns and the client goes on. Nothing panics and everything is answered.
func vxH06Flush(withFlushOp bool) {
	kit := vxNewKit(false, withFlushOp, 8192, true)
	nc := vxNewNetConn()
	kit.srv.NewConn(nc)
	nc.in <- refEncode(Tversion, NOTAG, []refItem{refU32(8192), refS("9P2000.u")}, true)
	vxQuiesce()
	nc.in <- refEncode(Tattach, 1, []refItem{refU32(0), refU32(NOFID), refS("u0"), refS(""), refU32(0)}, true)
	vxQuiesce()
	nc.in <- refEncode(Topen, 1, []refItem{refU32(0), refU8(ORDWR)}, true)
	vxQuiesce()
	g := make(chan bool, 1)
	kit.ops.gate = map[uint16]chan bool{10: g}
	nc.in <- refEncode(Tread, 10, []refItem{refU32(0), refU64(0), refU32(2)}, true)
	vxQuiesce()
	mark := len(nc.wire)
	ftag := vxU16("flush.tag")
	vxAssume(vxAll(ftag != NOTAG, ftag != 10))
	nc.in <- refEncode(Tflush, ftag, []refItem{refU16(vxU16("oldtag"))}, true)
	vxQuiesce()
	g <- true
	vxQuiesce()
	nc.in <- refEncode(Tstat, 12, []refItem{refU32(0)}, true)
	vxQuiesce()
	fs, ok := vxFrames(nc.wire[mark:])
	vxAssert(ok, "reply-stream-well-formed")
	nf, n12 := 0, 0
	for _, f := range fs {
		if f.tag == ftag && f.typ == Rflush {
			nf++
		}
		if f.tag == 12 && ftag != 12 {
			n12++
		}
	}
	vxAssert(nf == 1, "flush-answered-once")
	vxAssert(n12 == 1 || ftag == 12, "session-goes-on")
	vxReach("done")
}
