package go9p

import "io"

// C11 — a disconnect releases everything the connection held.

// nfids: fids on the victim (0: attach only fid 0; 1: + walked fid 1; 2: + fid 1 opened)
// kinds[i] of in-flight request i: 0 Tread on the opened/attached fid, 1 Tclunk of fid 1, 2 Twalk fid0 -> new fid 7
func vxH11(nfids int, w int, kind0 int, kind1 int, maxpend int, midframe bool) {
	kit := vxNewKit(false, false, 8192, true)
	kit.srv.Maxpend = maxpend
	kit.ops.hook = func(op string, req *SrvReq) { vxYield() }
	nc := vxNewNetConn()  // victim
	nb := vxNewNetConn()  // bystander
	kit.srv.NewConn(nb)
	vxQuiesce()
	kit.srv.NewConn(nc)
	vxQuiesce()
	ver := refEncode(Tversion, NOTAG, []refItem{refU32(8192), refS("9P2000.u")}, true)
	att := refEncode(Tattach, 1, []refItem{refU32(0), refU32(NOFID), refS("u0"), refS(""), refU32(0)}, true)
	nb.in <- ver
	vxQuiesce()
	nb.in <- att
	vxQuiesce()
	nc.in <- ver
	vxQuiesce()
	nc.in <- att
	vxQuiesce()
	if nfids >= 1 {
		nc.in <- refEncode(Twalk, 1, []refItem{refU32(0), refU32(1), {kind: rkNstr, ss: nil}}, true)
		vxQuiesce()
		// ... and moved in place once (newfid == fid), as a client that walks step by step does
		nc.in <- refEncode(Twalk, 1, []refItem{refU32(1), refU32(1), {kind: rkNstr, ss: nil}}, true)
		vxQuiesce()
	}
	if nfids >= 2 {
		nc.in <- refEncode(Topen, 1, []refItem{refU32(1), refU8(ORDWR)}, true)
		vxQuiesce()
	}
	var victim *Conn
	for c := range kit.srv.conns {
		if c.conn == nc {
			victim = c
		}
	}
	vxAssert(victim != nil, "harness-victim-found")
	if victim == nil {
		return
	}
	// fids valid at the moment of the disconnect
	valid := map[uint32]*SrvFid{}
	for no, f := range victim.fidpool {
		valid[no] = f
	}
	vxAssert(len(valid) == 1+min(nfids, 1), "harness-fid-count")
	// in-flight requests parked inside the implementation
	kinds := []int{kind0, kind1}
	kit.ops.gate = map[uint16]chan bool{}
	for i := 0; i < w; i++ {
		tag := uint16(20 + i)
		kit.ops.gate[tag] = make(chan bool, 1)
		switch kinds[i] {
		case 0:
			nc.in <- refEncode(Tread, tag, []refItem{refU32(uint32(min(nfids, 1))), refU64(0), refU32(2)}, true)
		case 1:
			nc.in <- refEncode(Tclunk, tag, []refItem{refU32(uint32(min(nfids, 1)))}, true)
		case 2:
			nc.in <- refEncode(Twalk, tag, []refItem{refU32(0), refU32(7), {kind: rkNstr, ss: nil}}, true)
		}
	}
	vxQuiesce()
	wireBefore := len(nb.writes)
	// the client goes away (optionally in the middle of a frame)
	if midframe {
		nc.in <- []byte{23, 0, 0, 0, Tread, 9}
	}
	nc.hangup()
	vxQuiesce()
	// executing requests return afterwards, in every order
	first := 0
	if w == 2 {
		first = vxChoose("release-order", 2)
	}
	for i := 0; i < w; i++ {
		j := i
		if w == 2 && first == 1 {
			j = 1 - i
		}
		kit.ops.gate[uint16(20+j)] <- true
		vxQuiesce()
	}
	// ---- oracle ----
	vxAssert(kit.ops.closed == 1, "connection-reported-closed-exactly-once")
	if vxSymbolic() {
		// a lock held while the implementation is told of the open/close/destroy stalls every other connection
		vxAssertE(kit.ops.lockViol == 0, "implementation-notified-without-a-framework-lock-held")
	}
	for _, f := range valid {
		vxAssert(kit.ops.ndestroyed(f) >= 1, "fid-valid-at-disconnect-reported-destroyed")
		vxAssert(kit.ops.ndestroyed(f) <= 1, "fid-reported-destroyed-at-most-once")
	}
	for i, d := range kit.ops.destroyed {
		for j := 0; j < i; j++ {
			vxAssert(kit.ops.destroyed[j] != d, "no-fid-destroyed-twice")
		}
	}
	if vxSymbolic() {
		// only the bystander sender may still be parked in library code (its receiver waits inside the transport stub)
		vxAssert(vxParkedInLib() <= 1, "every-goroutine-of-the-dropped-connection-ended")
	}
	_, still := kit.srv.conns[victim]
	vxAssert(!still, "dropped-connection-unregistered")
	// the bystander is undisturbed
	nb.in <- refEncode(Tstat, 5, []refItem{refU32(0)}, true)
	vxQuiesce()
	vxAssert(len(nb.writes) == wireBefore+1, "bystander-still-served")
	if len(nb.writes) == wireBefore+1 {
		vxAssert(nb.writes[wireBefore][4] == Rstat, "bystander-answer")
	}
	vxReach("done")
}

// H11.writefail: the disconnect shows up as a failing Write while a reply is being sent and another request
// (a Tversion, which the receiver executes itself) is waiting to queue its reply.
func vxH11WriteFail(maxpend int, second int) {
	kit := vxNewKit(false, false, 8192, true)
	kit.srv.Maxpend = maxpend
	nc := vxNewNetConn()
	kit.srv.NewConn(nc)
	vxQuiesce()
	nc.in <- refEncode(Tversion, NOTAG, []refItem{refU32(8192), refS("9P2000.u")}, true)
	vxQuiesce()
	nc.in <- refEncode(Tattach, 1, []refItem{refU32(0), refU32(NOFID), refS("u0"), refS(""), refU32(0)}, true)
	vxQuiesce()
	var victim *Conn
	for c := range kit.srv.conns {
		victim = c
	}
	vxAssert(victim != nil, "harness-victim-found")
	if victim == nil {
		return
	}
	f0 := victim.fidpool[0]
	// the peer stops reading: the reply to the next request stays in Write
	nc.stallWrite = len(nc.writes)
	nc.in <- refEncode(Tstat, 5, []refItem{refU32(0)}, true)
	vxQuiesce()
	// meanwhile another request arrives and is answered
	switch second {
	case 0:
		nc.in <- refEncode(Tversion, NOTAG, []refItem{refU32(8192), refS("9P2000.u")}, true)
	case 1:
		nc.in <- refEncode(Tstat, 6, []refItem{refU32(0)}, true)
	}
	vxQuiesce()
	// now the transport gives up
	nc.release <- io.ErrClosedPipe
	vxQuiesce()
	nc.hangup()
	vxQuiesce()
	vxAssert(kit.ops.closed == 1, "connection-reported-closed-exactly-once")
	if f0 != nil {
		vxAssert(kit.ops.ndestroyed(f0) == 1, "fid-valid-at-disconnect-reported-destroyed-once")
	}
	if vxSymbolic() {
		vxAssert(vxParkedInLib() == 0, "every-goroutine-of-the-dropped-connection-ended")
	}
	_, still := kit.srv.conns[victim]
	vxAssert(!still, "dropped-connection-unregistered")
	vxReach("done")
}

// H11.reuse: a fid number that was clunked while a request on it was still executing and then bound again: the
// connection holds two fids under one number for a while (the old one only through its request). Whatever the order
// of the request's return and the hang-up, each of them is reported destroyed exactly once.
func vxH11Reuse(releaseFirst bool) {
	kit := vxNewKit(false, false, 8192, true)
	kit.ops.hook = func(op string, req *SrvReq) { vxYield() }
	nc := vxNewNetConn()
	kit.srv.NewConn(nc)
	vxQuiesce()
	nc.in <- refEncode(Tversion, NOTAG, []refItem{refU32(8192), refS("9P2000.u")}, true)
	vxQuiesce()
	nc.in <- refEncode(Tattach, 1, []refItem{refU32(0), refU32(NOFID), refS("u0"), refS(""), refU32(0)}, true)
	vxQuiesce()
	nc.in <- refEncode(Twalk, 1, []refItem{refU32(0), refU32(1), {kind: rkNstr, ss: nil}}, true)
	vxQuiesce()
	var victim *Conn
	for c := range kit.srv.conns {
		victim = c
	}
	vxAssert(victim != nil && victim.fidpool[1] != nil && victim.fidpool[0] != nil, "harness-fids-bound")
	if victim == nil || victim.fidpool[1] == nil {
		return
	}
	root, old := victim.fidpool[0], victim.fidpool[1]
	kit.ops.gate = map[uint16]chan bool{20: make(chan bool, 1)}
	nc.in <- refEncode(Tstat, 20, []refItem{refU32(1)}, true)
	vxQuiesce()
	mark := len(nc.writes)
	nc.in <- refEncode(Tclunk, 21, []refItem{refU32(1)}, true)
	vxQuiesce()
	nc.in <- refEncode(Twalk, 22, []refItem{refU32(0), refU32(1), {kind: rkNstr, ss: nil}}, true)
	vxQuiesce()
	vxAssert(len(nc.writes) == mark+2 && nc.writes[mark][4] == Rclunk && nc.writes[mark+1][4] == Rwalk, "number-clunked-and-bound-again")
	if len(nc.writes) != mark+2 || nc.writes[mark+1][4] != Rwalk {
		return
	}
	fresh := victim.fidpool[1]
	vxAssert(fresh != nil && fresh != old, "harness-new-fid")
	if releaseFirst {
		kit.ops.gate[20] <- true
		vxQuiesce()
	}
	nc.hangup()
	vxQuiesce()
	if !releaseFirst {
		kit.ops.gate[20] <- true
		vxQuiesce()
	}
	vxAssert(kit.ops.closed == 1, "connection-reported-closed-exactly-once")
	for _, f := range []*SrvFid{root, old, fresh} {
		vxAssert(kit.ops.ndestroyed(f) >= 1, "fid-valid-at-disconnect-reported-destroyed")
		vxAssert(kit.ops.ndestroyed(f) <= 1, "fid-reported-destroyed-at-most-once")
	}
	if vxSymbolic() {
		vxAssert(vxParkedInLib() == 0, "every-goroutine-of-the-dropped-connection-ended")
	}
	_, still := kit.srv.conns[victim]
	vxAssert(!still, "dropped-connection-unregistered")
	vxReach("done")
}
