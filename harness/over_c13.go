package go9p

// H13.srv-oversize: the segmentation independence also holds for a stream that is not valid. After two ordinary
// requests the client sends a frame whose announced size exceeds msize (but fits the 8 x msize receive buffer, so it
// can arrive whole), followed by another request. However the bytes are cut, the oversize frame is not executed, nothing
// behind it is, and the connection is dropped (C12's rule, which must not depend on segmentation). Whether the two
// requests in front of it were already executed when the connection goes down is a matter of timing and not asserted.
func vxH13SrvOversize(msize int, ncuts int) {
	var stream []byte
	stream = append(stream, refEncode(Tstat, 30, []refItem{refU32(0)}, true)...)
	stream = append(stream, refEncode(Tread, 31, []refItem{refU32(0), refU64(vxU64("roffset")), refU32(2)}, true)...)
	bigAt := len(stream)
	name := make([]byte, msize) // a Twalk whose single name is msize bytes long: a well-formed frame of msize+17 bytes
	for i := range name {
		name[i] = 'a' + byte(i%26)
	}
	stream = append(stream, refEncode(Twalk, 32, []refItem{refU32(0), refU32(5), {kind: rkNstr, ss: []string{string(name)}}}, true)...)
	bigEnd := len(stream)
	stream = append(stream, refEncode(Tstat, 33, []refItem{refU32(0)}, true)...)
	L := len(stream)
	var cuts []int
	if ncuts < 0 {
		for c := 1; c < L; c++ {
			cuts = append(cuts, c)
		}
	}
	lo := 1
	for i := 0; i < ncuts; i++ {
		if lo >= L {
			break
		}
		c := lo + vxChoose("cut", L-lo)
		cuts = append(cuts, c)
		lo = c + 1
	}
	vxObserve("big-frame", bigEnd-bigAt)
	for pass := 0; pass < 2; pass++ {
		cs := cuts
		if pass == 0 {
			cs = nil // one segment
		}
		seen, wire, alive := vxRunStream(msize, stream, cs)
		vxAssert(!alive, "oversize-frame-drops-the-connection-under-every-segmentation")
		for _, g := range seen {
			vxAssert(g.tag != 32, "oversize-frame-not-executed-under-any-segmentation")
			vxAssert(g.tag != 33, "nothing-behind-the-oversize-frame-is-executed")
		}
		fr, _ := vxFrames(wire)
		for _, f := range fr {
			vxAssert(f.tag != 32 && f.tag != 33, "no-reply-to-the-oversize-frame-or-what-follows-it")
		}
	}
	vxReach("done")
}
