package go9p

// C14 (server part, H14.srv) — file data read and written through Ufs is exact.
//
// Read: file content = L symbolic bytes, offset (64 bit) and count (32 bit) fully symbolic, msize symbolic in
// [IOHDRSZ, IOHDRSZ+maxc]. The reply must be the Rread packet that the independent wire reference builds from
// file[off : min(off+count, L)], empty at and beyond the end of the file.
// Write: WriteAt must be called once with exactly (data, offset), Rwrite must carry its result, and the model
// file must afterwards contain exactly the spliced bytes.
//
// Three-valued points (the statement is silent): counts above msize-IOHDRSZ (C05's business) and offsets that are
// not representable as a file offset (>= 2^63): either an error or an empty read is accepted.

func vxH14Read(dotu bool, L int, maxc int) {
	msize := vxU32("msize")
	vxAssume(vxAll(msize >= IOHDRSZ, msize <= IOHDRSZ+uint32(maxc)))
	k := vxNewUfsKit(dotu, msize)
	data := vxBytes("file", L)
	orig := make([]byte, L)
	copy(orig, data)
	k.fs.addFile(k.rootDir(), "f", 0644, data)
	f, _ := k.addFid(1, vxRoot+"/f", 0)
	k.openFid(f, OREAD)
	before := k.fs.snapshot()

	off := vxU64("offset")
	count := vxU32("count")
	// counts for which the generic layer's own size guard (count+IOHDRSZ) wraps around belong to C05/C06 (F9)
	vxAssume(count <= 0xFFFFFFFF-IOHDRSZ)
	tc := &Fcall{Type: Tread, Fid: 1, Offset: off, Count: count}
	// the reply buffer is larger than msize (a recycled pre-negotiation buffer), so that error replies fit:
	// replies that do not fit msize are C03/C12's subject, not this one's
	rc := k.run(tc, 256)
	if rc == nil {
		return
	}
	if count > msize-IOHDRSZ {
		vxReach("toolarge") // refused by the generic layer (C05)
		return
	}
	if off >= 1<<63 {
		vxObserve("class", "offset-not-representable")
		ok := rc.Type == Rerror
		if rc.Type == Rread {
			ok = rc.Count == 0
		}
		vxAssert(ok, "unrepresentable-offset-returns-no-data")
		vxReach("hugeoffset")
		return
	}
	// reference: the bytes of the file in [off, off+count)
	var exp []byte
	if off < uint64(L) {
		o := int(off)
		end := L
		if uint64(count) < uint64(L-o) {
			end = o + int(count)
		}
		exp = orig[o:end]
		vxReach("inside")
	} else {
		vxReach("at-or-beyond-eof")
	}
	vxObserve("explen", len(exp))
	vxAssert(rc.Type == Rread, "read-answered-with-Rread")
	if rc.Type != Rread {
		return
	}
	vxAssert(rc.Count == uint32(len(exp)), "count-is-bytes-available")
	vxAssert(len(rc.Data) == len(exp), "data-length")
	if len(rc.Data) == len(exp) {
		vxAssert(refBytesEq(rc.Data, exp), "data-equals-file-bytes")
	}
	want := refEncode(Rread, tc.Tag, []refItem{{kind: rkData, cnt: uint32(len(exp)), b: exp}}, dotu)
	vxAssert(len(rc.Pkt) == len(want), "packet-length")
	if len(rc.Pkt) == len(want) {
		vxAssert(refBytesEq(rc.Pkt, want), "packet-equals-reference-Rread")
	}
	vxAssert(vxSameTree(before, k.fs.snapshot()), "read-changes-nothing")
	vxAssert(k.fs.mutationsDone() == 0, "read-makes-no-mutating-call")
	vxReach("ok")
}

func vxH14Write(dotu bool, L int, N int) {
	msize := vxU32("msize")
	vxAssume(vxAll(msize >= IOHDRSZ, msize <= IOHDRSZ+uint32(N)+1))
	k := vxNewUfsKit(dotu, msize)
	old := vxBytes("file", L)
	orig := make([]byte, L)
	copy(orig, old)
	in := k.fs.addFile(k.rootDir(), "f", 0644, old)
	f, _ := k.addFid(1, vxRoot+"/f", 0)
	omode := vxU8("omode")
	vxAssume(vxAny(omode&3 == OWRITE, omode&3 == ORDWR)) // the fid was opened for writing (C05 refuses otherwise)
	k.openFid(f, omode)

	off := vxU64("offset")
	data := vxBytes("data", N)
	sent := make([]byte, N)
	copy(sent, data)
	tc := &Fcall{Type: Twrite, Fid: 1, Offset: off, Count: uint32(N), Data: data}
	rc := k.run(tc, 256)
	if rc == nil {
		return
	}
	if uint32(N) > msize-IOHDRSZ {
		vxReach("toolarge")
		return
	}
	// call conformance: exactly one WriteAt, with exactly (data, offset); nothing else mutates
	nw := 0
	var wc vxFSCall
	for _, c := range k.fs.log {
		if c.op == "writeat" {
			nw++
			wc = c
		} else {
			vxAssert(!c.mut, "write-makes-no-other-mutating-call")
		}
	}
	vxAssert(nw == 1, "exactly-one-WriteAt")
	if nw != 1 {
		return
	}
	vxAssert(wc.a == int64(off), "WriteAt-offset-is-request-offset")
	vxAssert(len(wc.data) == N, "WriteAt-length-is-request-length")
	if len(wc.data) == N {
		vxAssert(refBytesEq(wc.data, sent), "WriteAt-data-is-request-data")
	}
	if wc.err != nil {
		vxAssert(rc.Type == Rerror, "failed-WriteAt-answered-with-Rerror")
		vxReach("write-error")
		return
	}
	vxAssert(rc.Type == Rwrite, "write-answered-with-Rwrite")
	if rc.Type != Rwrite {
		return
	}
	vxAssert(rc.Count == uint32(N), "Rwrite-carries-WriteAt-result")
	want := refEncode(Rwrite, tc.Tag, []refItem{refU32(uint32(N))}, dotu)
	vxAssert(len(rc.Pkt) == len(want), "packet-length")
	if len(rc.Pkt) == len(want) {
		vxAssert(refBytesEq(rc.Pkt, want), "packet-equals-reference-Rwrite")
	}
	// the file now contains exactly the splice (checked where the model applies the data: offset+N <= 16)
	if N > 0 && off <= uint64(k.fs.maxWrite)-uint64(N) {
		o := int(off)
		n := L
		if o+N > n {
			n = o + N
		}
		ref := make([]byte, n)
		copy(ref, orig)
		copy(ref[o:], sent)
		vxAssert(len(in.data) == n, "file-length-after-write")
		if len(in.data) == n {
			vxAssert(refBytesEq(in.data, ref), "file-content-after-write")
		}
		vxAssert(in.size == int64(n), "file-size-after-write")
		vxReach("content-checked")
	}
	vxReach("ok")
}
