package go9p

// C20 — the message logger keeps the most recent entries in order.

type vxLogRec struct {
	id    int
	owner int // 1 or 2; 0 = logged without an owner
	typ   int // DbgLogFcalls (4), DbgLogPackets (8) or 12 (shares bits with both, equals neither)
}

func vxLogMatch(r vxLogRec, owner int, typ int) bool {
	return (owner == 0 || r.owner == owner) && (typ == 0 || r.typ == typ)
}

var vxOwnerA, vxOwnerB = new(int), new(int)

func vxOwnerVal(o int) interface{} {
	switch o {
	case 1:
		return vxOwnerA
	case 2:
		return vxOwnerB
	}
	return nil
}

// checkFilter: res must be an in-order, duplicate-free, gap-free subsequence of the matching logged entries, <= N long.
func vxCheckFilter(res []*Log, logged []vxLogRec, owner, typ, N int, final bool) {
	vxAssert(len(res) <= N, "filter-at-most-capacity")
	last := -1
	for _, it := range res {
		vxAssert(it != nil, "filter-entry-non-nil")
		if it == nil {
			return
		}
		id, ok := it.Data.(int)
		vxAssert(ok && id >= 0 && id < len(logged), "filter-returns-only-logged-entries")
		if !ok || id < 0 || id >= len(logged) {
			return
		}
		r := logged[id]
		vxAssert(vxLogMatch(r, owner, typ), "filter-entry-matches")
		vxAssert(it.Type == r.typ && it.Owner == vxOwnerVal(r.owner), "filter-entry-intact")
		vxAssert(id > last, "filter-in-log-order-without-duplicates")
		if last >= 0 {
			for j := last + 1; j < id; j++ {
				vxAssert(!vxLogMatch(logged[j], owner, typ), "filter-skips-no-matching-entry-between-two-returned")
			}
		}
		last = id
	}
	if final {
		// exactly the matching entries among the N most recently logged
		lo := len(logged) - N
		if lo < 0 {
			lo = 0
		}
		var want []int
		for j := lo; j < len(logged); j++ {
			if vxLogMatch(logged[j], owner, typ) {
				want = append(want, j)
			}
		}
		vxAssert(len(res) == len(want), "converged-filter-length")
		if len(res) == len(want) {
			for i := range want {
				id, _ := res[i].Data.(int)
				vxAssert(id == want[i], "converged-filter-content")
			}
		}
	}
}

func vxH20Ring(N int, nops int) {
	l := NewLogger(N)
	var logged []vxLogRec
	var kept, keptCopy [][]*Log // earlier Filter results and what they held when they were returned
	for i := 0; i < nops; i++ {
		if op := vxChoose("op", 5); op < 2 || op == 4 {
			// owner A, B or none, symbolic type among the library's own DbgLogFcalls, DbgLogPackets and their union (which shares bits with both and equals neither)
			typ := vxInt("type")
			vxAssume(vxAny(typ == DbgLogFcalls, typ == DbgLogPackets, typ == DbgLogFcalls|DbgLogPackets))
			r := vxLogRec{id: len(logged), owner: (1 + op) % 5, typ: typ}
			logged = append(logged, r)
			l.Log(r.id, vxOwnerVal(r.owner), r.typ)
		} else {
			// owner nil or A, symbolic type among 0 (any) and the three above
			owner := op - 2
			typ := vxInt("ftype")
			vxAssume(vxAny(typ == 0, typ == DbgLogFcalls, typ == DbgLogPackets, typ == DbgLogFcalls|DbgLogPackets))
			res := l.Filter(vxOwnerVal(owner), typ)
			vxCheckFilter(res, logged, owner, typ, N, false)
			kept = append(kept, res)
			keptCopy = append(keptCopy, append([]*Log{}, res...))
			vxReach("filter-mid")
		}
	}
	vxQuiesce()
	if vxSymbolic() {
		vxAssert(vxParkedInLib() == 1, "no-call-blocks:only-the-logger-goroutine-is-parked")
	}
	owner := vxChoose("fowner", 3)
	typ := vxInt("ftype")
	vxAssume(vxAny(typ == 0, typ == DbgLogFcalls, typ == DbgLogPackets, typ == DbgLogFcalls|DbgLogPackets))
	res := l.Filter(vxOwnerVal(owner), typ)
	vxCheckFilter(res, logged, owner, typ, N, true)
	// a result that was returned stays what it was: later Log/Filter calls do not rewrite it
	for i := range kept {
		same := len(kept[i]) == len(keptCopy[i])
		for j := 0; same && j < len(kept[i]); j++ {
			same = kept[i][j] == keptCopy[i][j]
		}
		vxAssert(same, "earlier-filter-result-not-disturbed-by-later-calls")
	}
	vxReach("final")
}

// two producers: per-producer order and membership
func vxH20Multi(N int, per int) {
	l := NewLogger(N)
	done := make(chan bool, 2)
	for p := 1; p <= 2; p++ {
		p := p
		go func() {
			for i := 0; i < per; i++ {
				l.Log(p*100+i, vxOwnerVal(p), 1)
			}
			done <- true
		}()
	}
	mid := l.Filter(nil, 0)
	vxCheckMulti(mid, N, per)
	<-done
	<-done
	vxQuiesce()
	res := l.Filter(nil, 0)
	vxCheckMulti(res, N, per)
	total := 2 * per
	if total > N {
		total = N
	}
	vxAssert(len(res) == total, "multi-converged-count")
	vxReach("final")
}

func vxCheckMulti(res []*Log, N, per int) {
	vxAssert(len(res) <= N, "multi-at-most-capacity")
	last := [3]int{-1, -1, -1}
	for _, it := range res {
		vxAssert(it != nil, "multi-entry-non-nil")
		if it == nil {
			return
		}
		id, ok := it.Data.(int)
		vxAssert(ok, "multi-data")
		p, i := id/100, id%100
		vxAssert((p == 1 || p == 2) && i < per, "multi-only-logged-entries")
		if p != 1 && p != 2 {
			return
		}
		vxAssert(i > last[p], "multi-per-producer-order")
		if last[p] >= 0 {
			vxAssert(i == last[p]+1, "multi-no-gap-within-producer")
		}
		last[p] = i
	}
}

// H20.burst: more Log calls than the logger's queue holds, issued back to back: logging may wait, it never drops.
func vxH20Burst(N int, n int) {
	l := NewLogger(N)
	var logged []vxLogRec
	for i := 0; i < n; i++ {
		r := vxLogRec{id: i, owner: 1 + i%2, typ: []int{DbgLogFcalls, DbgLogPackets, DbgLogFcalls | DbgLogPackets}[(i/2)%3]}
		logged = append(logged, r)
		l.Log(r.id, vxOwnerVal(r.owner), r.typ)
	}
	vxQuiesce()
	owner := vxChoose("fowner", 3)
	typ := vxInt("ftype")
	vxAssume(vxAny(typ == 0, typ == DbgLogFcalls, typ == DbgLogPackets, typ == DbgLogFcalls|DbgLogPackets))
	res := l.Filter(vxOwnerVal(owner), typ)
	vxCheckFilter(res, logged, owner, typ, N, true)
	vxReach("final")
}

// H20.conc: several goroutines call Filter at the same time with different arguments; each gets the answer to its own
// question. The log is quiescent, so every answer is the converged one.
func vxH20FilterConc(N int, n int, callers int) {
	l := NewLogger(N)
	var logged []vxLogRec
	for i := 0; i < n; i++ {
		r := vxLogRec{id: i, owner: i % 3, typ: []int{DbgLogFcalls, DbgLogPackets, DbgLogFcalls | DbgLogPackets}[(i/2)%3]}
		logged = append(logged, r)
		l.Log(r.id, vxOwnerVal(r.owner), r.typ)
	}
	vxQuiesce()
	type ans struct {
		owner, typ int
		res        []*Log
	}
	out := make(chan ans, callers)
	for c := 0; c < callers; c++ {
		owner, typ := c%3, []int{0, DbgLogFcalls, DbgLogPackets, DbgLogFcalls | DbgLogPackets}[(c+1)%4]
		go func() {
			out <- ans{owner, typ, l.Filter(vxOwnerVal(owner), typ)}
		}()
	}
	for c := 0; c < callers; c++ {
		a := <-out
		vxCheckFilter(a.res, logged, a.owner, a.typ, N, true)
	}
	vxReach("final")
}
