package go9p

// C13 (server half) — behaviour depends on the byte stream, not on how it is segmented.
// The same request stream is delivered in one segment and under a symbolic cut vector; the executed requests
// (type, tag, fields, payload bytes checked after the whole stream was consumed) and the reply stream must agree.

type vxSeenReq struct {
	typ    uint8
	tag    uint16
	fid    uint32
	offset uint64
	count  uint32
	data   []byte // the slice the implementation was handed (aliasing checked at the end)
	copy   []byte // its content at the time of the call
}

// builds a stream of nreq requests with symbolic fields; sizes vary (Tstat 11, Tread 23, Twrite 23+payload)
func vxBuildStream(nreq int, paymax int) ([]byte, []int) {
	var stream []byte
	var lens []int
	for i := 0; i < nreq; i++ {
		tag := uint16(30 + i)
		var p []byte
		switch i % 3 {
		case 0:
			pl := vxBytes("payload", paymax-(i%2))
			p = refEncode(Twrite, tag, []refItem{refU32(0), refU64(vxU64("woffset")), {kind: rkData, cnt: uint32(len(pl)), b: pl}}, true)
		case 1:
			p = refEncode(Tstat, tag, []refItem{refU32(0)}, true)
		case 2:
			p = refEncode(Tread, tag, []refItem{refU32(0), refU64(vxU64("roffset")), refU32(2)}, true)
		}
		stream = append(stream, p...)
		lens = append(lens, len(p))
	}
	return stream, lens
}

func vxRunStream(msize int, stream []byte, cuts []int) ([]vxSeenReq, []byte, bool) {
	// the server's own msize is the small one: the receive buffer (8*msize) is allocated when the connection starts
	kit := vxNewKit(false, false, uint32(msize), true)
	kit.ops.echo = true
	var seen []vxSeenReq
	kit.ops.hook = func(op string, req *SrvReq) {
		tc := req.Tc
		s := vxSeenReq{typ: tc.Type, tag: tc.Tag, fid: tc.Fid, offset: tc.Offset, count: tc.Count, data: tc.Data}
		s.copy = append([]byte{}, tc.Data...)
		vxLock()
		seen = append(seen, s)
		vxUnlock()
	}
	nc := vxNewNetConn()
	kit.srv.NewConn(nc)
	nc.in <- refEncode(Tversion, NOTAG, []refItem{refU32(uint32(msize)), refS("9P2000.u")}, true)
	vxQuiesce()
	nc.in <- refEncode(Tattach, 1, []refItem{refU32(0), refU32(NOFID), refS("u0"), refS(""), refU32(0)}, true)
	vxQuiesce()
	nc.in <- refEncode(Topen, 1, []refItem{refU32(0), refU8(ORDWR)}, true)
	vxQuiesce()
	mark := len(nc.wire)
	kit.ops.calls = nil
	vxLock()
	seen = nil
	vxUnlock()
	up := func() bool { // the server still has the connection (a peer cannot push bytes into a closed one)
		for range kit.srv.conns {
			return true
		}
		return false
	}
	prev := 0
	for _, c := range cuts {
		if c > prev && up() {
			nc.in <- stream[prev:c]
			vxQuiesce()
			prev = c
		}
	}
	if prev < len(stream) && up() {
		nc.in <- stream[prev:]
		vxQuiesce()
	}
	return seen, nc.wire[mark:], up()
}

func vxH13Srv(msize int, nreq int, paymax int, ncuts int) {
	stream, _ := vxBuildStream(nreq, paymax)
	L := len(stream)
	// cut positions: increasing, chosen by the solver-free choice over byte offsets
	var cuts []int
	lo := 1
	if ncuts < 0 {
		// one byte at a time
		for c := 1; c < L; c++ {
			cuts = append(cuts, c)
		}
	}
	for i := 0; i < ncuts; i++ {
		if lo >= L {
			break
		}
		c := lo + vxChoose("cut", L-lo)
		cuts = append(cuts, c)
		lo = c + 1
	}
	vxObserve("ncuts", len(cuts))
	ref, refWire, refAlive := vxRunStream(msize, stream, nil)
	got, gotWire, gotAlive := vxRunStream(msize, stream, cuts)
	vxAssert(refAlive && gotAlive, "connection-survives-valid-stream")
	vxAssert(len(ref) == nreq, "one-segment-delivery-executes-every-request")
	vxAssert(len(got) == len(ref), "same-number-of-requests-executed")
	if len(got) != len(ref) {
		return
	}
	// requests are independent (distinct tags): compare per tag, order within one tag is trivially the same
	for _, r := range ref {
		found := false
		for _, g := range got {
			if g.tag != r.tag {
				continue
			}
			found = true
			vxAssert(vxAll(g.typ == r.typ, g.fid == r.fid, g.offset == r.offset, g.count == r.count, refBytesEq(g.copy, r.copy)), "same-request-fields")
			// payload not disturbed by bytes that arrived later
			vxAssert(refBytesEq(g.data, g.copy), "payload-undisturbed-by-later-bytes")
		}
		vxAssert(found, "same-requests-executed")
	}
	// the reply streams carry the same frames (replies to independent requests may be ordered differently)
	rf, ok1 := vxFrames(refWire)
	gf, ok2 := vxFrames(gotWire)
	vxAssert(ok1 && ok2 && len(rf) == len(gf), "same-number-of-replies")
	if ok1 && ok2 && len(rf) == len(gf) {
		for _, a := range rf {
			match := false
			for _, b := range gf {
				if a.tag == b.tag {
					match = refBytesEq(a.raw, b.raw)
				}
			}
			vxAssert(match, "same-replies")
		}
	}
	vxReach("done")
}


// H13.srv-session: the whole session, starting with the Tversion that changes msize and dialect, is one byte
// stream: later messages of the same transport read must be parsed under the newly negotiated parameters, and
// none may be left unparsed until more bytes happen to arrive.
func vxH13SrvSession(msize int, clientDotu bool, nreq int, ncuts int) {
	ver := "9P2000"
	if clientDotu {
		ver = "9P2000.u"
	}
	// the requests behind the Tversion are independent of each other (each attaches its own fid), so the session
	// is valid under any execution order of the workers
	var stream []byte
	stream = append(stream, refEncode(Tversion, NOTAG, []refItem{refU32(uint32(msize)), refS(ver)}, clientDotu)...)
	for i := 0; i < nreq; i++ {
		att := []refItem{refU32(uint32(i)), refU32(NOFID), refS(""), refS(vxString("aname", 1))}
		if clientDotu {
			att = append(att, refU32(0))
		}
		stream = append(stream, refEncode(Tattach, uint16(30+i), att, clientDotu)...)
	}
	L := len(stream)
	var cuts []int
	lo := 1
	if ncuts < 0 {
		for c := 1; c < L; c++ {
			cuts = append(cuts, c)
		}
	}
	for i := 0; i < ncuts; i++ {
		if lo >= L {
			break
		}
		c := lo + vxChoose("cut", L-lo)
		cuts = append(cuts, c)
		lo = c + 1
	}
	run := func(cuts []int) ([]byte, int, bool) {
		kit := vxNewKit(false, false, 8192, true) // a .u-capable server with a large msize of its own
		kit.ops.echo = true
		nc := vxNewNetConn()
		kit.srv.NewConn(nc)
		vxQuiesce()
		prev := 0
		for _, c := range cuts {
			if c > prev {
				nc.in <- stream[prev:c]
				vxQuiesce()
				prev = c
			}
		}
		if prev < len(stream) {
			nc.in <- stream[prev:]
			vxQuiesce()
		}
		alive := false
		for range kit.srv.conns {
			alive = true
		}
		return nc.wire, kit.ops.ncalls("attach"), alive
	}
	refWire, refReads, refAlive := run(nil)
	gotWire, gotReads, gotAlive := run(cuts)
	vxAssert(refAlive && gotAlive, "connection-survives-valid-session")
	vxAssert(refReads == nreq, "one-segment-delivery-executes-every-request")
	vxAssert(gotReads == nreq, "segmented-delivery-executes-every-request")
	rf, ok1 := vxFrames(refWire)
	gf, ok2 := vxFrames(gotWire)
	vxAssert(ok1 && ok2 && len(rf) == nreq+1 && len(gf) == nreq+1, "every-message-answered-once")
	if ok1 && ok2 && len(rf) == len(gf) {
		for _, a := range rf {
			match := false
			for _, b := range gf {
				if a.tag == b.tag && a.typ == b.typ {
					match = refBytesEq(a.raw, b.raw)
				}
			}
			vxAssert(match, "same-replies")
		}
	}
	vxReach("done")
}

// H13.srv-edge: the receive buffer (8 x msize) is consumed from the front and replaced when too little of it is
// left. The stream is laid out so that a message boundary falls exactly k bytes (k = 0..4, a partial size prefix)
// before the end of that buffer, and the whole stream arrives in one transport segment, so that the read fills the
// buffer to its last byte. Everything is executed and answered, as when the same stream arrives message by message.
func vxH13SrvEdge(msize int) {
	k := vxChoose("bytes-left-at-the-boundary", 5)
	// bytes of the buffer used by the prologue of vxRunStream (Tversion, Tattach, Topen)
	used := len(refEncode(Tversion, NOTAG, []refItem{refU32(uint32(msize)), refS("9P2000.u")}, true)) +
		len(refEncode(Tattach, 1, []refItem{refU32(0), refU32(NOFID), refS("u0"), refS(""), refU32(0)}, true)) +
		len(refEncode(Topen, 1, []refItem{refU32(0), refU8(ORDWR)}, true))
	R := 8*msize - used - k
	var stream []byte
	var bounds []int
	n := 0
	add := func(size int) {
		tag := uint16(30 + n)
		n++
		if size == 11 {
			stream = append(stream, refEncode(Tstat, tag, []refItem{refU32(0)}, true)...)
		} else {
			pl := make([]byte, size-23)
			for i := range pl {
				pl[i] = byte(n + i)
			}
			stream = append(stream, refEncode(Twrite, tag, []refItem{refU32(0), refU64(uint64(n)), {kind: rkData, cnt: uint32(len(pl)), b: pl}}, true)...)
		}
		bounds = append(bounds, len(stream))
	}
	// frame sizes available: 11 (Tstat) and 23..msize-1 (Twrite with 0..msize-24 payload bytes)
	big := msize - 1
	for R >= big+3*23 {
		add(big)
		R -= big
	}
	var pick func(r int, depth int) []int
	pick = func(r int, depth int) []int {
		if r == 11 || (r >= 23 && r <= big) {
			return []int{r}
		}
		if depth == 0 {
			return nil
		}
		for _, s := range []int{big, 23, 11, 30} {
			if s < r {
				if rest := pick(r-s, depth-1); rest != nil {
					return append([]int{s}, rest...)
				}
			}
		}
		return nil
	}
	sizes := pick(R, 5)
	vxAssert(sizes != nil, "harness-layout")
	for _, s := range sizes {
		add(s)
	}
	vxAssert(len(stream) == 8*msize-used-k, "harness-boundary-where-intended")
	add(11)
	add(big)
	add(11)
	ref, refWire, refAlive := vxRunStream(msize, stream, bounds)
	got, gotWire, gotAlive := vxRunStream(msize, stream, nil)
	vxAssert(refAlive && len(ref) == n, "message-by-message-delivery-executes-every-request")
	vxAssert(gotAlive, "connection-survives-valid-stream")
	vxAssert(len(got) == n, "one-segment-delivery-executes-every-request")
	rf, ok1 := vxFrames(refWire)
	gf, ok2 := vxFrames(gotWire)
	vxAssert(ok1 && ok2 && len(rf) == n && len(gf) == n, "every-request-answered")
	if ok1 && ok2 && len(rf) == len(gf) {
		for _, a := range rf {
			match := false
			for _, b := range gf {
				if a.tag == b.tag {
					match = refBytesEq(a.raw, b.raw)
				}
			}
			vxAssert(match, "same-replies")
		}
	}
	vxReach("done")
}
