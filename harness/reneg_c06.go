package go9p

// H06.reneg: a client negotiates a tiny msize, sends a second Tversion with another (symbolic) msize, then reads a
// directory of the Unix file server with a symbolic count: whatever the framework makes of the second Tversion,
// nothing may panic and the connection must keep answering or be dropped as a whole.
func vxH06Reneg(dotu bool) {
	k := vxNewUfsKit(dotu, 8192)
	root := k.rootDir()
	k.fs.addFile(root, "f", 0644, []byte{1, 2, 3})
	k.fs.addDir(root, "d", 0755)
	nc := vxNewNetConn()
	k.ufs.NewConn(nc)
	ver := "9P2000"
	if dotu {
		ver = "9P2000.u"
	}
	m1 := vxU32("msize1")
	vxAssume(vxAll(m1 >= 24, m1 <= 40))
	nc.in <- refEncode(Tversion, NOTAG, []refItem{refU32(m1), refS(ver)}, dotu)
	vxQuiesce()
	m2 := vxU32("msize2")
	nc.in <- refEncode(Tversion, NOTAG, []refItem{refU32(m2), refS(ver)}, dotu)
	vxQuiesce()
	att := []refItem{refU32(0), refU32(NOFID), refS(""), refS("")}
	if dotu {
		att = append(att, refU32(0))
	}
	nc.in <- refEncode(Tattach, 1, att, dotu)
	vxQuiesce()
	nc.in <- refEncode(Topen, 1, []refItem{refU32(0), refU8(OREAD)}, dotu)
	vxQuiesce()
	nc.in <- refEncode(Tread, 2, []refItem{refU32(0), refU64(0), refU32(vxU32("count"))}, dotu)
	vxQuiesce()
	nc.in <- refEncode(Tstat, 3, []refItem{refU32(0)}, dotu)
	vxQuiesce()
	vxReach("done")
}
