package go9p

// H06.reneg: a client negotiates a tiny msize, sends a second Tversion with another (symbolic) msize, then reads a
// directory of the Unix file server with a symbolic count: whatever the framework makes of the second Tversion,
// nothing may panic and the connection must keep answering or be dropped as a whole.
func vxH06Reneg(dotu bool) {
	k := vxNewUfsKit(dotu, 8192)
	root := k.rootDir()
	k.fs.addFile(root, "f", 0644, []byte{1, 2, 3})
	k.fs.addDir(root, "d", 0755)
	nc := vxNewNetConn()
	k.ufs.NewConn(nc)
	ver := "9P2000"
	if dotu {
		ver = "9P2000.u"
	}
	m1 := vxU32("msize1")
	vxAssume(vxAll(m1 >= 24, m1 <= 40))
	nc.in <- refEncode(Tversion, NOTAG, []refItem{refU32(m1), refS(ver)}, dotu)
	vxQuiesce()
	m2 := vxU32("msize2")
	nc.in <- refEncode(Tversion, NOTAG, []refItem{refU32(m2), refS(ver)}, dotu)
	vxQuiesce()
	att := []refItem{refU32(0), refU32(NOFID), refS(""), refS("")}
	if dotu {
		att = append(att, refU32(0))
	}
	nc.in <- refEncode(Tattach, 1, att, dotu)
	vxQuiesce()
	nc.in <- refEncode(Topen, 1, []refItem{refU32(0), refU8(OREAD)}, dotu)
	vxQuiesce()
	nc.in <- refEncode(Tread, 2, []refItem{refU32(0), refU64(0), refU32(vxU32("count"))}, dotu)
	vxQuiesce()
	nc.in <- refEncode(Tstat, 3, []refItem{refU32(0)}, dotu)
	vxQuiesce()
	vxReach("done")
}

// H06.ufsauth: fids the framework creates and destroys without the Unix file server ever attaching its own state
// to them: a Tauth (Ufs offers no authentication, the fresh afid is released at once), a Tattach naming an
// existing fid as afid, a Tattach whose aname does not exist (symbolic bytes), then a hang-up with fids alive.
func vxH06UfsAuth(dotu bool) {
	k := vxNewUfsKit(dotu, 8192)
	root := k.rootDir()
	k.fs.addFile(root, "f", 0644, []byte{1, 2, 3})
	nc := vxNewNetConn()
	k.ufs.NewConn(nc)
	ver := "9P2000"
	if dotu {
		ver = "9P2000.u"
	}
	nc.in <- refEncode(Tversion, NOTAG, []refItem{refU32(8192), refS(ver)}, dotu)
	vxQuiesce()
	au := []refItem{refU32(vxU32("afid")), refS("u0"), refS("")}
	if dotu {
		au = append(au, refU32(0))
	}
	nc.in <- refEncode(Tauth, 1, au, dotu)
	vxQuiesce()
	att := func(fid, afid uint32, aname string) []byte {
		it := []refItem{refU32(fid), refU32(afid), refS(""), refS(aname)}
		if dotu {
			it = append(it, refU32(0))
		}
		return refEncode(Tattach, 2, it, dotu)
	}
	nc.in <- att(1, NOFID, "")
	vxQuiesce()
	nc.in <- att(2, 1, "")
	vxQuiesce()
	nc.in <- att(3, NOFID, vxString("aname", 2))
	vxQuiesce()
	nc.in <- refEncode(Tclunk, 3, []refItem{refU32(vxU32("clunk"))}, dotu)
	vxQuiesce()
	fr, ok := vxFrames(nc.wire)
	vxAssert(ok && len(fr) == 6, "every-request-answered")
	nc.hangup()
	vxQuiesce()
	vxReach("done")
}
