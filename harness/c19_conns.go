package go9p

// H19.conns: a connection is opened, used and dropped (once its own requests were answered) while another
// connection has two requests in flight on different fids.
func vxH19Conns() {
	kit := vxNewKit(false, false, 8192, true)
	kit.ops.echo = true
	na := vxNewNetConn()
	kit.srv.NewConn(na)
	ver := refEncode(Tversion, NOTAG, []refItem{refU32(8192), refS("9P2000.u")}, true)
	att := refEncode(Tattach, 1, []refItem{refU32(0), refU32(NOFID), refS("u0"), refS(""), refU32(0)}, true)
	na.in <- ver
	vxQuiesce()
	na.in <- att
	vxQuiesce()
	na.in <- refEncode(Twalk, 1, []refItem{refU32(0), refU32(1), {kind: rkNstr, ss: nil}}, true)
	vxQuiesce()
	na.in <- refEncode(Topen, 1, []refItem{refU32(1), refU8(ORDWR)}, true)
	vxQuiesce()
	// busy connection: two requests on different fids
	na.in <- append(refEncode(Tread, 10, []refItem{refU32(1), refU64(5), refU32(2)}, true),
		refEncode(Tstat, 11, []refItem{refU32(0)}, true)...)
	// meanwhile another client connects, attaches and goes away
	nb := vxNewNetConn()
	kit.srv.NewConn(nb)
	nb.in <- ver
	nb.in <- att
	vxQuiesce()
	vxAssert(len(nb.writes) == 2, "second-connection-answered")
	nb.hangup()
	// ... and yet another client connects while that one is being torn down
	nd := vxNewNetConn()
	kit.srv.NewConn(nd)
	nd.in <- ver
	na.in <- refEncode(Tread, 12, []refItem{refU32(1), refU64(6), refU32(2)}, true)
	vxQuiesce()
	vxAssert(len(na.writes) == 7, "busy-connection-answered")
	vxAssert(kit.ops.closed == 1, "dropped-connection-closed")
	vxAssert(len(nd.writes) == 1, "third-connection-answered")
	vxReach("done")
}

// H19.users: attaches on two connections at the same time, resolved through the library's own user pool (OsUsers,
// what a server gets when it sets no pool of its own): one uid is new to the pool, the other may be known already.
func vxH19Users() {
	kit := vxNewKit(false, false, 8192, true)
	kit.srv.Upool = OsUsers
	ver := refEncode(Tversion, NOTAG, []refItem{refU32(8192), refS("9P2000.u")}, true)
	att := func(uid uint32) []byte {
		return refEncode(Tattach, 1, []refItem{refU32(0), refU32(NOFID), refS(""), refS(""), refU32(uid)}, true)
	}
	na := vxNewNetConn()
	kit.srv.NewConn(na)
	nb := vxNewNetConn()
	kit.srv.NewConn(nb)
	na.in <- ver
	nb.in <- ver
	vxQuiesce()
	if vxBool("one-uid-known-already") {
		nc := vxNewNetConn()
		kit.srv.NewConn(nc)
		nc.in <- ver
		vxQuiesce()
		nc.in <- att(7)
		vxQuiesce()
		vxAssert(len(nc.writes) == 2 && nc.writes[1][4] == Rattach, "first-attach-answered")
	}
	na.in <- att(7)
	nb.in <- att(8)
	vxQuiesce()
	vxAssert(len(na.writes) == 2 && na.writes[1][4] == Rattach, "attach-on-connection-a-answered")
	vxAssert(len(nb.writes) == 2 && nb.writes[1][4] == Rattach, "attach-on-connection-b-answered")
	vxReach("done")
}
