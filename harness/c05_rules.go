package go9p

// C05 — protocol rules are enforced before the implementation is called.
// One step from an arbitrary fid state; three-valued reference rule (must refuse / must forward / either).

const (
	vxRefuse  = 0
	vxForward = 1
	vxEither  = 2
)

const vxSpecialPerm = DMNAMEDPIPE | DMSYMLINK | DMLINK | DMDEVICE | DMSOCKET

// reference rule, transcribed from the property statement (not from the code)
func refRule(kind int, ftype uint8, opened bool, omode uint8, tc *Fcall, msize uint32, dotu bool, newfidExists bool) int {
	isdir := ftype&QTDIR != 0
	tooBig := uint64(tc.Count) > uint64(msize)-IOHDRSZ
	switch kind {
	case Twalk:
		if opened {
			return vxRefuse
		}
		if len(tc.Wname) > 0 && !isdir {
			return vxRefuse
		}
		if tc.Newfid != tc.Fid && newfidExists {
			return vxRefuse
		}
		if tc.Newfid == NOFID {
			return vxEither
		}
		return vxForward
	case Topen:
		if opened {
			return vxRefuse
		}
		if isdir {
			m := tc.Mode & 3
			if m == OWRITE || m == ORDWR || tc.Mode&OTRUNC != 0 || tc.Mode&ORCLOSE != 0 {
				return vxRefuse
			}
			if tc.Mode == OREAD {
				return vxForward
			}
			return vxEither
		}
		return vxForward
	case Tcreate:
		if opened || !isdir {
			return vxRefuse
		}
		if tc.Perm&vxSpecialPerm != 0 && !dotu {
			return vxRefuse
		}
		if tc.Perm&DMDIR != 0 && tc.Mode != OREAD {
			return vxEither
		}
		return vxForward
	case Tread:
		if tooBig {
			return vxRefuse
		}
		if !opened {
			return vxEither
		}
		if omode&3 == OWRITE {
			return vxEither
		}
		return vxForward
	case Twrite:
		if !opened || isdir || omode&3 == OREAD {
			return vxRefuse
		}
		if tooBig {
			return vxRefuse
		}
		if omode&3 == OEXEC {
			return vxEither
		}
		return vxForward
	}
	return vxEither
}

func vxH05Step(kind int, withAuth bool) {
	msize := vxU32("msize")
	vxAssume(msize >= IOHDRSZ)
	dotu := vxBool("dotu")
	k := vxNewKit(withAuth, false, msize, dotu)
	conn := k.conn
	ftype := vxU8("ftype")
	vxAssume(ftype&QTAUTH == 0)
	opened := vxBool("opened")
	omode := vxU8("omode")
	fid := k.addFid(conn, 1, k.users.u1, ftype)
	fid.opened = opened
	fid.Omode = omode
	other := k.addFid(conn, 2, k.users.u0, QTDIR)
	k.ops.qid = Qid{Type: vxU8("qid.type"), Path: 7}

	tc := &Fcall{Type: uint8(kind), Tag: 7, Fid: 1}
	newfidExists := false
	var names []string
	switch kind {
	case Twalk:
		switch vxChoose("newfid", 4) {
		case 0:
			tc.Newfid = 1
		case 1:
			tc.Newfid = 3
		case 2:
			tc.Newfid = 2
			newfidExists = true
		case 3:
			tc.Newfid = NOFID
		}
		n := vxChoose("nwname", 3)
		for i := 0; i < n; i++ {
			names = append(names, vxString("wname", 1))
		}
		tc.Wname = names
	case Topen:
		tc.Mode = vxU8("mode")
	case Tcreate:
		tc.Perm = vxU32("perm")
		tc.Mode = vxU8("mode")
		tc.Name = vxString("name", 2)
		tc.Ext = vxString("ext", 1)
	case Tread:
		tc.Offset = vxU64("offset")
		tc.Count = vxU32("count")
	case Twrite:
		tc.Offset = vxU64("offset")
		tc.Count = vxU32("count")
		tc.Data = vxBytes("data", 2)
	}
	in := *tc // the client's arguments
	rule := refRule(kind, ftype, opened, omode, tc, msize, dotu, newfidExists)
	vxObserve("rule", rule)
	vxObserve("kind", kind)

	req := k.newReq(conn, tc, 256)
	req.Process()

	rs := k.replies(conn)
	vxAssert(len(rs) == 1, "exactly-one-reply")
	if len(rs) != 1 {
		return
	}
	rc := rs[0].Rc
	nops := len(k.ops.calls)
	switch rule {
	case vxRefuse:
		vxAssert(rc.Type == Rerror, "refused-with-error")
		vxAssert(nops == 0, "refused-request-not-forwarded")
		// a refused request has no effect on the fid it named
		vxAssert(vxAll(fid.opened == opened, fid.Type == ftype), "refused-request-leaves-fid-state")
		vxReach("refuse")
	case vxForward:
		vxAssert(nops == 1, "forwarded-exactly-once")
		if nops == 1 {
			c := k.ops.calls[0]
			want := map[int]string{Twalk: "walk", Topen: "open", Tcreate: "create", Tread: "read", Twrite: "write"}[kind]
			vxAssert(c.op == want, "forwarded-to-matching-operation")
			vxAssert(c.fid == fid, "forwarded-with-the-table's-fid")
			vxAssert(c.user == User(k.users.u1), "forwarded-with-the-fid's-user")
			t := c.req.Tc
			ok := vxAll(t.Fid == in.Fid, t.Newfid == in.Newfid, t.Mode == in.Mode, t.Perm == in.Perm, t.Name == in.Name,
				t.Ext == in.Ext, t.Offset == in.Offset, t.Count == in.Count, len(t.Wname) == len(in.Wname), len(t.Data) == len(in.Data))
			for i := range in.Wname {
				if i < len(t.Wname) {
					ok = vxAll(ok, t.Wname[i] == in.Wname[i])
				}
			}
			vxAssert(ok, "forwarded-arguments-unchanged")
			vxAssertE(c.locks == 0, "no-lock-held-in-implementation")
		}
		vxAssert(rc.Type == uint8(kind)+1, "forwarded-request-answered-by-implementation")
		// the effects of the answered request are in place for whatever the client sends next
		switch kind {
		case Twalk:
			nf := conn.fidpool[tc.Newfid]
			vxAssert(nf != nil, "walked-fid-valid-after-reply")
			if nf != nil {
				want := ftype
				if len(in.Wname) > 0 {
					want = k.ops.qid.Type // the type of the last element walked to
				}
				vxAssert(nf.Type == want, "walked-fid-has-the-type-of-its-object")
				vxAssert(!nf.opened || tc.Newfid == tc.Fid, "walked-fid-not-open")
			}
		case Topen:
			vxAssert(vxAll(fid.opened, fid.Omode == in.Mode), "fid-open-with-the-requested-mode-after-reply")
		case Tcreate:
			vxAssert(vxAll(fid.opened, fid.Omode == in.Mode, fid.Type == k.ops.qid.Type), "fid-designates-the-created-open-file-after-reply")
		}
		vxReach("forward")
	default:
		vxAssert(nops <= 1, "at-most-one-forward")
		vxReach("either")
	}
	_ = other
}

// H05.auth: no attach reaches the implementation unless AuthCheck accepted that attach.
func vxH05Auth() {
	k := vxNewKit(true, false, 8192, vxBool("dotu"))
	conn := k.conn
	if vxBool("authfails") {
		k.ops.authErr = &Error{"auth refused", EPERM}
	}
	hasAfid := vxBool("hasafid")
	var afid *SrvFid
	if hasAfid {
		afid = k.addFid(conn, 5, k.users.u0, QTAUTH)
	}
	tc := &Fcall{Type: Tattach, Tag: 1, Fid: 1, Afid: NOFID, Unamenum: vxU32("uid"), Uname: "u0", Aname: vxString("aname", 1)}
	switch vxChoose("afid", 3) {
	case 0:
	case 1:
		tc.Afid = 5
	case 2:
		tc.Afid = 9
	}
	aname := tc.Aname
	req := k.newReq(conn, tc, 256)
	req.Process()
	rs := k.replies(conn)
	vxAssert(len(rs) == 1, "exactly-one-reply")
	attached := k.ops.ncalls("attach")
	if attached > 0 {
		vxAssert(attached == 1, "attach-forwarded-once")
		ok := false
		for _, c := range k.ops.authCalls {
			if c.op == "authcheck" {
				ok = c.fid == k.ops.calls[0].fid && (tc.Afid == NOFID) == (c.afid == nil)
				if c.afid != nil {
					ok = ok && c.afid == afid
				}
			}
		}
		vxAssert(ok, "attach-preceded-by-authcheck-for-this-attach")
		vxAssert(k.ops.authErr == nil, "attach-forwarded-although-authcheck-refused")
		vxAssert(k.ops.calls[0].req.Tc.Aname == aname, "attach-aname-unchanged")
		vxReach("attached")
	} else {
		vxReach("not-attached")
	}
	if k.ops.authErr != nil {
		vxAssert(len(rs) == 1 && rs[0].Rc.Type == Rerror, "refused-attach-gets-error")
	}
}

// H05.visible: when a reply is handed to the sender, the request's effects are already in place, in every schedule.
func vxH05Visible(kind int) {
	k := vxNewKit(false, false, 8192, true)
	conn := k.conn
	conn.reqout = make(chan *SrvReq) // rendezvous with the observer below
	k.ops.qid = Qid{Type: vxU8("qtype"), Path: 9}
	fid := k.addFid(conn, 1, k.users.u1, QTDIR)
	tc := &Fcall{Type: uint8(kind), Tag: 3, Fid: 1, Afid: NOFID}
	mode := vxU8("mode")
	switch kind {
	case Tattach:
		tc.Fid = 2
		tc.Unamenum = 0
	case Twalk:
		tc.Newfid = 2
	case Topen:
		fid.Type = 0
		tc.Mode = mode
	case Tcreate:
		tc.Mode = OREAD
		tc.Name = "n"
	case Tremove:
		// the fid is gone after any Tremove, whether the implementation removed the file or refused
		if vxBool("remove-fails") {
			k.ops.outcome = vxOutErr
		}
	}
	type snap struct {
		present1, present2 bool
		opened           bool
		omode, ftype     uint8
		user2            User
		rtype            uint8
	}
	got := make(chan snap, 1)
	go func() {
		r := <-conn.reqout
		var s snap
		s.rtype = r.Rc.Type
		f1, ok1 := conn.fidpool[1]
		f2, ok2 := conn.fidpool[2]
		s.present1, s.present2 = ok1, ok2
		if ok1 {
			s.opened, s.omode, s.ftype = f1.opened, f1.Omode, f1.Type
		}
		if ok2 {
			s.user2 = f2.User
		}
		got <- s
	}()
	req := k.newReq(conn, tc, 256)
	req.Process()
	s := <-got
	switch kind {
	case Tattach:
		vxAssert(s.rtype == Rattach, "attach-answered")
		vxAssert(s.present2 && s.user2 == User(k.users.u0), "attached-fid-valid-when-reply-is-sent")
	case Twalk:
		vxAssert(s.rtype == Rwalk, "walk-answered")
		vxAssert(s.present2 && s.user2 == User(k.users.u1), "walked-fid-valid-when-reply-is-sent")
	case Topen:
		vxAssert(s.rtype == Ropen, "open-answered")
		vxAssert(s.opened && s.omode == mode, "fid-open-when-reply-is-sent")
	case Tcreate:
		vxAssert(s.rtype == Rcreate, "create-answered")
		vxAssert(s.opened && s.ftype == k.ops.qid.Type, "created-fid-open-and-typed-when-reply-is-sent")
	case Tclunk:
		vxAssert(s.rtype == Rclunk, "clunk-answered")
		vxAssert(!s.present1, "clunked-fid-invalid-when-reply-is-sent")
	case Tremove:
		vxAssert(s.rtype == Rremove || s.rtype == Rerror, "remove-answered")
		vxAssert(!s.present1, "removed-fid-invalid-when-reply-is-sent")
	}
	vxReach("done")
}
