package go9p

func vxT0Unpack(dotu bool, n int) {
	buf := vxBytes("in", n)
	fc, sz, err := Unpack(buf, dotu)
	if err != nil {
		vxAssert(fc == nil && sz == 0, "err-shape")
		vxReach("err")
		return
	}
	vxObserve("type", fc.Type)
	vxAssert(sz >= 7 && sz <= n, "size-range")
	vxReach("ok")
}
