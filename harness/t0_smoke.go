package go9p

func vxT0Re() {
	buf := []byte{10, 0, 0, 0, 107, 0, 0, 1, 0, 65, 0, 0}
	fc, n, _ := Unpack(buf, false)
	re := NewFcall(uint32(n) + 64)
	perr := vxRepack(re, fc, false)
	vxAssert(perr == nil, "perr")
	fc3, _, _ := Unpack(re.Pkt, false)
	a, b := fc, fc3
	vxAssert(a.Type == b.Type, "1")
	vxAssert(a.Fid == b.Fid, "2")
	vxAssert(a.Tag == b.Tag, "3")
	vxAssert(a.Error == b.Error, "4")
	vxAssert(a.Errornum == b.Errornum, "5")
	vxAssert(a.Unamenum == b.Unamenum, "6")
	vxAssert(refDirEq(&a.Dir, &b.Dir, false), "7")
	vxAssert(len(a.Data) == len(b.Data), "8")
	vxAssert(vxSameFcall(a, b, false), "9")
}
