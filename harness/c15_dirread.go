package go9p

// C15 — directory reads return whole entries, each exactly once.
//
// H15.window (vxH15Window): one Tread on an open directory fid whose snapshot is arbitrary but valid
// (k records whose end offsets are symbolic, strictly increasing, the last one = len(dirents)), symbolic count,
// offset = one of the record boundaries (the protocol's rule: previous offset + bytes returned); with arb=true
// the offset is any value (C06's panic-freedom question, expected to fail: F7).
// Oracle (DESIGN B.5), all from the statement:
//   Rread:  n <= count; offset+n is a record boundary; n == 0 only at the end; data == dirents[off:off+n];
//   Rerror: only when the next record does not fit in count;
//   the snapshot itself is untouched (so the step can be repeated: by induction every record is returned exactly
//   once before the empty reply).
// H15.snap (vxH15Snap): the offset-0 step on the model FS: the snapshot is rebuilt from the directory (k <= 2
// entries of every kind, names of 1..3 symbolic bytes): records decode with the reference decoder, in directory
// order, one per entry, agree with the entries' metadata; direntends are exactly the record boundaries; the
// reply obeys the same window rules from offset 0 (so rereading from 0 lists the directory again).

import "os"

func vxH15Window(dotu bool, kmax int, T int, arb bool) {
	msize := uint32(IOHDRSZ + T + 2)
	k := vxNewUfsKit(dotu, msize)
	f, uf := k.addFid(1, vxRoot, QTDIR)
	k.openFid(f, OREAD)

	n := 1 + vxChoose("k", kmax)
	if n > T {
		return
	}
	ends := make([]int, n)
	prev := 0
	for i := 0; i < n-1; i++ {
		e := vxInt("end")
		vxAssume(vxAll(e > prev, e < T))
		ends[i] = e
		prev = e
	}
	ends[n-1] = T
	dirents := vxBytes("dirents", T)
	snap := make([]byte, T)
	copy(snap, dirents)
	uf.dirents = dirents
	uf.direntends = append([]int{}, ends...)

	var off uint64
	if arb {
		off = vxU64("offset")
		vxAssume(off != 0)
	} else {
		off = uint64(ends[vxChoose("offidx", n)])
	}
	f.Diroffset = off
	count := vxU32("count")
	vxAssume(count <= msize-IOHDRSZ)
	vxObserve("arb", arb)

	rc := k.run(&Fcall{Type: Tread, Fid: 1, Offset: off, Count: count}, 256)
	if rc == nil {
		return
	}
	// size of the record that starts at off (0 if off is the end)
	next := 0
	atBoundary := false
	for i := 0; i < n; i++ {
		if uint64(ends[i]) == off {
			atBoundary = true
			if i+1 < n {
				next = ends[i+1] - ends[i]
			}
		}
	}
	if !atBoundary {
		// outside the protocol's rule: nothing is promised except that the server survives (C06)
		vxReach("arbitrary-offset")
		return
	}
	atEnd := off == uint64(T)
	if rc.Type == Rerror {
		vxAssert(!atEnd, "error-at-end-of-directory")
		vxAssert(uint64(next) > uint64(count), "error-although-next-entry-fits")
		vxReach("too-small")
	} else {
		vxAssert(rc.Type == Rread, "reply-type")
		if rc.Type != Rread {
			return
		}
		got := uint64(rc.Count)
		vxAssert(got <= uint64(count), "more-than-count")
		isEnd := got == 0
		for i := 0; i < n; i++ {
			isEnd = vxAny(isEnd, off+got == uint64(ends[i]))
		}
		vxAssert(isEnd, "reply-ends-inside-an-entry")
		vxAssert(vxAny(got != 0, atEnd), "empty-reply-before-the-end")
		vxAssert(uint64(len(rc.Data)) == got, "data-length")
		o := int(off)
		g := int(got)
		if o+g <= T && len(rc.Data) == g {
			vxAssert(refBytesEq(rc.Data, snap[o:o+g]), "data-is-the-snapshot-window")
		}
		want := refEncode(Rread, rc.Tag, []refItem{{kind: rkData, cnt: uint32(g), b: rc.Data}}, dotu)
		vxAssert(len(rc.Pkt) == len(want), "packet-length")
		if len(rc.Pkt) == len(want) {
			vxAssert(refBytesEq(rc.Pkt, want), "packet-is-reference-Rread")
		}
		vxReach("rread")
		if g == 0 {
			vxReach("empty-at-end")
		}
	}
	// the snapshot is as before
	same := len(uf.dirents) == T && len(uf.direntends) == n
	vxAssert(same, "snapshot-shape-changed")
	if same {
		okb := refBytesEq(uf.dirents, snap)
		for i := 0; i < n; i++ {
			okb = vxAll(okb, uf.direntends[i] == ends[i])
		}
		vxAssert(okb, "snapshot-changed")
	}
	vxAssert(k.fs.mutationsDone() == 0, "no-mutating-call")
}

type vxDirEnt struct {
	name string
	in   *vxInode
}

// vxH15Snap: offset-0 read of a model directory with 0..kmax entries.
func vxH15Snap(dotu bool, kmax int, namemax int) {
	const msize = 8192
	k := vxNewUfsKit(dotu, msize)
	dir := k.rootDir()
	n := vxChoose("k", kmax+1)
	var ents []vxDirEnt
	for i := 0; i < n; i++ {
		nl := 1 + vxChoose("namelen", namemax)
		name := vxString("name", nl)
		for j := 0; j < nl; j++ {
			vxAssume(vxAll(name[j] != '/', name[j] != 0))
		}
		for j := 0; j < i; j++ {
			vxAssume(name != ents[j].name)
		}
		var in *vxInode
		switch vxChoose("kind", 3) {
		case 0:
			in = k.fs.addFile(dir, name, 0, nil)
		case 1:
			in = k.fs.addDir(dir, name, 0)
		case 2:
			in = k.fs.addSymlink(dir, name, "t")
		}
		perm := os.FileMode(vxU32("perm") & 0777)
		in.mode = in.mode&^0777 | perm
		in.size = int64(vxU32("size"))
		in.mtime = int64(vxU32("mtime"))
		in.ino = vxU64("ino")
		in.uid = uint32(i & 1)
		ents = append(ents, vxDirEnt{name, in})
	}
	f, uf := k.addFid(1, vxRoot, QTDIR)
	k.openFid(f, OREAD)
	// a stale snapshot from an earlier listing
	uf.dirents = vxBytes("stale", 5)
	uf.direntends = []int{5}
	f.Diroffset = 5

	count := vxU32("count")
	vxAssume(count <= uint32(100*kmax)) // enough for all entries with bytes to spare (an entry here is 50..80 bytes)
	rc := k.run(&Fcall{Type: Tread, Fid: 1, Offset: 0, Count: count}, 512)
	if rc == nil {
		return
	}
	// 1. the snapshot: one decodable record per entry, in directory order, agreeing with the entry
	buf := uf.dirents
	pos := 0
	bounds := make([]int, 0, n)
	for i := 0; i < n; i++ {
		d, m, ok := refParseStat(buf[pos:], dotu)
		vxAssert(ok, "snapshot-record-decodes")
		if !ok {
			return
		}
		vxAssert(vxMetaAgrees(&d, ents[i].name, ents[i].in, dotu), "snapshot-record-agrees-with-entry")
		pos += m
		bounds = append(bounds, pos)
	}
	vxAssert(pos == len(buf), "snapshot-has-exactly-one-record-per-entry")
	vxAssert(len(uf.direntends) == n, "one-boundary-per-entry")
	if len(uf.direntends) != n {
		return
	}
	for i := 0; i < n; i++ {
		vxAssert(uf.direntends[i] == bounds[i], "boundary-is-record-end")
	}
	// 2. the reply: window rules from offset 0
	first := 0
	if n > 0 {
		first = bounds[0]
	}
	if rc.Type == Rerror {
		vxAssert(n > 0, "error-on-empty-directory")
		vxAssert(uint64(first) > uint64(count), "error-although-first-entry-fits")
		vxReach("too-small")
		return
	}
	vxAssert(rc.Type == Rread, "reply-type")
	if rc.Type != Rread {
		return
	}
	got := int(rc.Count)
	vxAssert(uint64(got) <= uint64(count), "more-than-count")
	okEnd := got == 0
	for i := 0; i < n; i++ {
		if got == bounds[i] {
			okEnd = true
		}
	}
	vxAssert(okEnd, "reply-ends-inside-an-entry")
	vxAssert(got != 0 || n == 0, "empty-reply-before-the-end")
	vxAssert(len(rc.Data) == got, "data-length")
	if len(rc.Data) == got && got <= len(buf) {
		vxAssert(refBytesEq(rc.Data, buf[:got]), "data-is-the-snapshot-window")
	}
	vxAssert(k.fs.mutationsDone() == 0, "no-mutating-call")
	vxObserve("entries", n)
	vxReach("rread")
	if got == len(buf) {
		vxReach("whole-directory")
	}
}
