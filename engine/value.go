package main

import (
	"fmt"
	"go/types"
	"strings"

	"golang.org/x/tools/go/ssa"
)

// Value is one of: *Term (bool/int scalar), Ptr, Slice, Str, Iface, Agg (flattened struct/array),
// Tuple, *MapObj, *ChanObj, *FuncVal, *IterState, FloatVal.
type Value interface{}

type Ptr struct {
	obj *Object
	off int
}

type Slice struct {
	obj      *Object
	off      int // in cells
	len, cap *Term
}

// Str: sym == nil means the concrete string s; otherwise len(sym) byte terms.
type Str struct {
	s   string
	sym []*Term
}

type Iface struct {
	t types.Type // nil => nil interface
	v Value
}

type Agg []Value
type Tuple []Value
type FloatVal struct{ f float64 }

type FuncVal struct {
	fn       *ssa.Function
	bindings []Value
	builtin  *ssa.Builtin
}

type Object struct {
	id      int
	cells   []Value
	lazy    map[int]Value // for objects with symbolic length
	zero    []Value       // zero cells of one element (lazy objects)
	ncells  *Term         // lazy: symbolic number of elements
	name    string
	harness bool // allocated by harness code
	shadow  []cellShadow
}

func (o *Object) get(i int) Value {
	if o.lazy != nil {
		if v, ok := o.lazy[i]; ok {
			return v
		}
		return o.zero[i%len(o.zero)]
	}
	return o.cells[i]
}

func (o *Object) set(i int, v Value) {
	if o.lazy != nil {
		o.lazy[i] = v
		return
	}
	o.cells[i] = v
}

type MapObj struct {
	id   int
	keys []Value
	vals []Value
	kt   types.Type
	vt   types.Type
	shadow cellShadow
	shadowInit bool
}

type ChanObj struct {
	id     int
	cap    int
	buf    []chanMsg
	closed bool
	et     types.Type
	// clocks for k-th receive (buffered HB edge)
	recvClocks []VC
	closeClock VC
	nsend      int
}

type chanMsg struct {
	v  Value
	vc VC
}

type IterState struct {
	m    *MapObj
	str  Str
	keys []Value
	vals []Value
	i    int
	isStr bool
}

func (s Str) Len() int {
	if s.sym != nil {
		return len(s.sym)
	}
	return len(s.s)
}
func (s Str) IsConcrete() bool {
	if s.sym == nil {
		return true
	}
	for _, t := range s.sym {
		if !t.IsConst() {
			return false
		}
	}
	return true
}
func (s Str) Concrete() string {
	if s.sym == nil {
		return s.s
	}
	b := make([]byte, len(s.sym))
	for i, t := range s.sym {
		b[i] = byte(t.k)
	}
	return string(b)
}
func (s Str) Cells(c *TermCtx) []*Term {
	if s.sym != nil {
		return s.sym
	}
	r := make([]*Term, len(s.s))
	for i := 0; i < len(s.s); i++ {
		r[i] = c.Const(uint64(s.s[i]), 8)
	}
	return r
}
func mkStr(cells []*Term) Str {
	allc := true
	for _, t := range cells {
		if !t.IsConst() {
			allc = false
			break
		}
	}
	if allc {
		b := make([]byte, len(cells))
		for i, t := range cells {
			b[i] = byte(t.k)
		}
		return Str{s: string(b)}
	}
	if cells == nil {
		cells = []*Term{}
	}
	return Str{sym: cells}
}

// ---------- type layout ----------

type layoutInfo struct {
	n      int
	fields []int // struct: cell offset of each field
}

type Layouts struct {
	cache map[types.Type]*layoutInfo
}

func (l *Layouts) of(t types.Type) *layoutInfo {
	if li, ok := l.cache[t]; ok {
		return li
	}
	li := &layoutInfo{}
	switch u := t.Underlying().(type) {
	case *types.Struct:
		off := 0
		for i := 0; i < u.NumFields(); i++ {
			li.fields = append(li.fields, off)
			off += l.of(u.Field(i).Type()).n
		}
		li.n = off
	case *types.Array:
		li.n = int(u.Len()) * l.of(u.Elem()).n
	case *types.Tuple:
		li.n = 1
	default:
		li.n = 1
	}
	l.cache[t] = li
	return li
}

func intWidth(b *types.Basic) (w int, signed bool) {
	switch b.Kind() {
	case types.Bool, types.UntypedBool:
		return 0, false
	case types.Int8:
		return 8, true
	case types.Int16:
		return 16, true
	case types.Int32, types.UntypedRune:
		return 32, true
	case types.Int64, types.Int, types.UntypedInt:
		return 64, true
	case types.Uint8:
		return 8, false
	case types.Uint16:
		return 16, false
	case types.Uint32:
		return 32, false
	case types.Uint64, types.Uint, types.Uintptr:
		return 64, false
	}
	return -1, false
}

func isIntType(t types.Type) (int, bool, bool) {
	if b, ok := t.Underlying().(*types.Basic); ok {
		w, s := intWidth(b)
		if w > 0 {
			return w, s, true
		}
	}
	return 0, false, false
}

func (in *Interp) zeroCells(t types.Type, out []Value) []Value {
	switch u := t.Underlying().(type) {
	case *types.Basic:
		switch {
		case u.Info()&types.IsBoolean != 0:
			return append(out, in.tc.False)
		case u.Info()&types.IsInteger != 0:
			w, _ := intWidth(u)
			return append(out, in.tc.Const(0, w))
		case u.Info()&types.IsString != 0:
			return append(out, Str{})
		case u.Info()&types.IsFloat != 0:
			return append(out, FloatVal{})
		case u.Kind() == types.UnsafePointer:
			return append(out, Ptr{})
		case u.Kind() == types.UntypedNil:
			return append(out, Ptr{})
		}
		panic(engineErr("zero of basic " + u.String()))
	case *types.Pointer:
		return append(out, Ptr{})
	case *types.Slice:
		z := in.tc.Const(0, 64)
		return append(out, Slice{len: z, cap: z})
	case *types.Map:
		return append(out, (*MapObj)(nil))
	case *types.Chan:
		return append(out, (*ChanObj)(nil))
	case *types.Signature:
		return append(out, (*FuncVal)(nil))
	case *types.Interface:
		return append(out, Iface{})
	case *types.Struct:
		for i := 0; i < u.NumFields(); i++ {
			out = in.zeroCells(u.Field(i).Type(), out)
		}
		return out
	case *types.Array:
		for i := int64(0); i < u.Len(); i++ {
			out = in.zeroCells(u.Elem(), out)
		}
		return out
	case *types.Tuple:
		tu := make(Tuple, u.Len())
		for i := 0; i < u.Len(); i++ {
			tu[i] = in.zeroValue(u.At(i).Type())
		}
		return append(out, tu)
	}
	panic(engineErr("zero of " + t.String()))
}

func (in *Interp) zeroValue(t types.Type) Value {
	c := in.zeroCells(t, nil)
	if isAggType(t) {
		return Agg(c)
	}
	return c[0]
}

func isAggType(t types.Type) bool {
	switch t.Underlying().(type) {
	case *types.Struct, *types.Array:
		return true
	}
	return false
}

type engineErr string

func (e engineErr) Error() string { return "engine: " + string(e) }

func valString(v Value) string {
	switch x := v.(type) {
	case *Term:
		return x.String()
	case Ptr:
		if x.obj == nil {
			return "nil"
		}
		return fmt.Sprintf("&o%d[%d]", x.obj.id, x.off)
	case Slice:
		if x.obj == nil {
			return "[]nil"
		}
		return fmt.Sprintf("o%d[%d:+%s]", x.obj.id, x.off, x.len)
	case Str:
		if x.sym == nil {
			return fmt.Sprintf("%q", x.s)
		}
		var sb strings.Builder
		sb.WriteString("str[")
		for i, t := range x.sym {
			if i > 0 {
				sb.WriteByte(' ')
			}
			if i > 8 {
				sb.WriteString("...")
				break
			}
			sb.WriteString(t.String())
		}
		sb.WriteByte(']')
		return sb.String()
	case Iface:
		if x.t == nil {
			return "iface(nil)"
		}
		return "iface(" + x.t.String() + ":" + valString(x.v) + ")"
	case Agg:
		return fmt.Sprintf("agg(%d)", len(x))
	case Tuple:
		var parts []string
		for _, e := range x {
			parts = append(parts, valString(e))
		}
		return "(" + strings.Join(parts, ", ") + ")"
	case *MapObj:
		if x == nil {
			return "map(nil)"
		}
		return fmt.Sprintf("map#%d(%d)", x.id, len(x.keys))
	case *ChanObj:
		if x == nil {
			return "chan(nil)"
		}
		return fmt.Sprintf("chan#%d", x.id)
	case *FuncVal:
		if x == nil {
			return "func(nil)"
		}
		if x.fn != nil {
			return "func " + x.fn.String()
		}
		return "builtin"
	}
	return fmt.Sprintf("%T", v)
}
