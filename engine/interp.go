package main

// SSA interpreter with symbolic scalars and concrete shapes.

import (
	"fmt"
	"go/constant"
	"go/token"
	"go/types"
	"strings"

	"golang.org/x/tools/go/packages"
	"golang.org/x/tools/go/ssa"
)

type fnInfo struct {
	regOf map[ssa.Value]int
	n     int
}

type deferRec struct {
	fn   Value // *FuncVal or Iface (invoke)
	meth *types.Func
	args []Value
	site ssa.Instruction
}

type Frame struct {
	fn     *ssa.Function
	info   *fnInfo
	regs   []Value
	block  *ssa.BasicBlock
	prev   *ssa.BasicBlock
	ip     int
	defers []*deferRec
	// where to put the result in the caller
	retReg   int // -1: discard
	bindings []Value
	loops    map[*ssa.BasicBlock]int
	onReturn func(ret Value) // native continuation (optional)
}

type ndRec struct {
	name  string
	kind  string
	term  *Term
	bytes []*Term
	conc  uint64
}

type obsRec struct {
	name string
	v    Value
}

type Program struct {
	prog     *ssa.Program
	pkg      *ssa.Package
	fset     *token.FileSet
	stubFns  map[string]*ssa.Function // mangled callee name -> harness stub
	repoPath string
	gopkg    *packages.Package
	rewritten map[string][]byte
}

type Interp struct {
	p       *Program
	tc      *TermCtx
	solver  *Solver
	ex      *Explorer
	lay     *Layouts
	fninfo  map[*ssa.Function]*fnInfo
	harness string

	// path state
	prefix   []Decision
	pos      int
	dec      []Decision
	pc       []*Term
	model    Model
	memo     map[*Term]uint64
	nondet   []ndRec
	observed []obsRec
	events   []string
	schedLog []string
	nextObj  int
	globals  map[*ssa.Global]*Object
	inited   map[*ssa.Package]bool
	consts   map[*ssa.Const]Value
	steps    int64
	maxSteps int64
	concCap  int
	loopCap  int
	allocBytes *Term
	varSeq   map[string]int

	threads  []*Thread
	cur      *Thread
	preempts int
	frees    int
	maxFree  int
	maxPreempt int
	raceOn   bool
	mutexes  map[*Object]map[int]*mutexState

	usedFns  map[string]bool
	usedStubs map[string]bool
	names     map[*ssa.Function]string
	harnessFn map[*ssa.Function]bool
	totalSteps int64
	mapOrder  bool
	forceLibSite bool
	engineOnly   bool
	known     map[*Term]bool
	concKnown map[*Term]uint64
	substGen  int
	substMemo map[*Term]*Term
	mangledNames map[*ssa.Function]string
}

func (in *Interp) info(fn *ssa.Function) *fnInfo {
	if fi, ok := in.fninfo[fn]; ok {
		return fi
	}
	fi := &fnInfo{regOf: map[ssa.Value]int{}}
	add := func(v ssa.Value) {
		fi.regOf[v] = fi.n
		fi.n++
	}
	for _, p := range fn.Params {
		add(p)
	}
	for _, fv := range fn.FreeVars {
		add(fv)
	}
	for _, b := range fn.Blocks {
		for _, ins := range b.Instrs {
			if v, ok := ins.(ssa.Value); ok {
				add(v)
			}
		}
	}
	in.fninfo[fn] = fi
	return fi
}

func (in *Interp) where() string {
	if in.cur == nil || len(in.cur.frames) == 0 {
		return "?"
	}
	return in.frameWhere(in.cur.frames[len(in.cur.frames)-1])
}

func (in *Interp) frameWhere(f *Frame) string {
	pos := token.NoPos
	if f.block != nil && f.ip < len(f.block.Instrs) {
		pos = f.block.Instrs[f.ip].Pos()
		// search backwards for a position
		for i := f.ip; pos == token.NoPos && i >= 0; i-- {
			pos = f.block.Instrs[i].Pos()
		}
	}
	if pos == token.NoPos {
		pos = f.fn.Pos()
	}
	p := in.p.fset.Position(pos)
	file := p.Filename
	if i := strings.LastIndex(file, "/"); i >= 0 {
		file = file[i+1:]
	}
	return fmt.Sprintf("%s(%s:%d)", f.fn.String(), file, p.Line)
}

func (in *Interp) stack() []string {
	var r []string
	if in.cur == nil {
		return r
	}
	fr := in.cur.frames
	for i := len(fr) - 1; i >= 0 && len(r) < 12; i-- {
		r = append(r, in.frameWhere(fr[i]))
	}
	return r
}

// siteID: stable identifier of the current instruction: chain of repo (non-harness) functions with the
// source text of each call site, so that it survives line shifts.
func (in *Interp) siteID() string {
	if in.cur == nil || len(in.cur.frames) == 0 {
		return "?"
	}
	fr := in.cur.frames
	var parts []string
	for i := 0; i < len(fr); i++ {
		f := fr[i]
		if f.fn.Pkg != in.p.pkg || isHarnessFnCached(in, f.fn) {
			if i == len(fr)-1 {
				parts = append(parts, f.fn.String())
			}
			continue
		}
		if i == len(fr)-1 && len(parts) > 0 {
			parts = append(parts, f.fn.Name())
		} else {
			parts = append(parts, f.fn.Name()+"`"+in.srcLine(f, i < len(fr)-1)+"`")
		}
	}
	if len(parts) == 0 {
		return fr[len(fr)-1].fn.String()
	}
	if len(parts) > 4 {
		parts = parts[len(parts)-4:]
	}
	return strings.Join(parts, ">")
}

func (in *Interp) srcLine(f *Frame, caller bool) string {
	pos := token.NoPos
	if f.block != nil {
		ip := f.ip
		if caller && ip > 0 {
			ip-- // the call instruction itself (ip was advanced when the callee frame was pushed)
		}
		if ip >= len(f.block.Instrs) {
			ip = len(f.block.Instrs) - 1
		}
		for i := ip; pos == token.NoPos && i >= 0; i-- {
			pos = f.block.Instrs[i].Pos()
		}
	}
	if pos == token.NoPos {
		return fmt.Sprintf("b%d.%d", f.block.Index, f.ip)
	}
	p := in.p.fset.Position(pos)
	return in.p.sourceLine(p.Filename, p.Line)
}

func isHarnessFn(p *Program, fn *ssa.Function) bool {
	for fn.Parent() != nil {
		fn = fn.Parent()
	}
	pos := fn.Pos()
	if pos == token.NoPos {
		if fn.Synthetic != "" && strings.HasPrefix(fn.Name(), "vx") {
			return true
		}
		return false
	}
	file := p.fset.Position(pos).Filename
	return strings.Contains(file, "zz_verif_")
}

// ---------- operand access ----------

func (in *Interp) get(f *Frame, v ssa.Value) Value {
	switch x := v.(type) {
	case *ssa.Const:
		return in.constValue(x)
	case *ssa.Global:
		return Ptr{obj: in.globalObj(x)}
	case *ssa.Function:
		return &FuncVal{fn: x}
	case *ssa.Builtin:
		return &FuncVal{builtin: x}
	}
	r, ok := f.info.regOf[v]
	if !ok {
		panic(engineErr("no register for " + v.Name() + " in " + f.fn.String()))
	}
	return f.regs[r]
}

func (in *Interp) set(f *Frame, v ssa.Value, val Value) {
	f.regs[f.info.regOf[v]] = val
}

func (in *Interp) constValue(c *ssa.Const) Value {
	if v, ok := in.consts[c]; ok {
		return v
	}
	var r Value
	t := c.Type()
	if c.Value == nil {
		r = in.zeroValue(t)
	} else {
		switch u := t.Underlying().(type) {
		case *types.Basic:
			switch {
			case u.Info()&types.IsBoolean != 0:
				r = in.tc.Bool(constant.BoolVal(c.Value))
			case u.Info()&types.IsInteger != 0:
				w, _ := intWidth(u)
				if i64, ok := constant.Int64Val(constant.ToInt(c.Value)); ok {
					r = in.tc.Const(uint64(i64), w)
				} else {
					u64, _ := constant.Uint64Val(constant.ToInt(c.Value))
					r = in.tc.Const(u64, w)
				}
			case u.Info()&types.IsString != 0:
				r = Str{s: constant.StringVal(c.Value)}
			case u.Info()&types.IsFloat != 0:
				f, _ := constant.Float64Val(c.Value)
				r = FloatVal{f}
			default:
				panic(engineErr("const of " + t.String()))
			}
		default:
			panic(engineErr("const of " + t.String()))
		}
	}
	in.consts[c] = r
	return r
}

func (in *Interp) newObject(n int, name string) *Object {
	o := &Object{id: in.nextObj, cells: make([]Value, n), name: name}
	in.nextObj++
	if in.cur != nil && len(in.cur.frames) > 0 {
		o.harness = isHarnessFn(in.p, in.cur.frames[len(in.cur.frames)-1].fn)
	}
	return o
}

func (in *Interp) allocType(t types.Type, name string) *Object {
	cells := in.zeroCells(t, nil)
	o := in.newObject(0, name)
	o.cells = cells
	return o
}

func (in *Interp) globalObj(g *ssa.Global) *Object {
	if o, ok := in.globals[g]; ok {
		return o
	}
	elem := g.Type().(*types.Pointer).Elem()
	o := in.allocType(elem, g.String())
	o.harness = g.Pkg == in.p.pkg && strings.HasPrefix(g.Name(), "vx")
	in.globals[g] = o
	// lazy package initialisation
	if g.Pkg != nil && !in.inited[g.Pkg] {
		in.ensureInit(g.Pkg)
	}
	return o
}

func (in *Interp) load(p Ptr, t types.Type) Value {
	if p.obj == nil {
		panic(engineErr("load through nil pointer not guarded: " + in.where()))
	}
	n := in.lay.of(t).n
	if in.raceOn {
		in.raceAccess(p.obj, p.off, n, false)
	}
	if !isAggType(t) {
		return p.obj.get(p.off)
	}
	a := make(Agg, n)
	for i := 0; i < n; i++ {
		a[i] = p.obj.get(p.off + i)
	}
	return a
}

func (in *Interp) store(p Ptr, t types.Type, v Value) {
	if p.obj == nil {
		panic(engineErr("store through nil pointer not guarded: " + in.where()))
	}
	if in.raceOn {
		in.raceAccess(p.obj, p.off, in.lay.of(t).n, true)
	}
	if a, ok := v.(Agg); ok {
		for i, c := range a {
			p.obj.set(p.off+i, c)
		}
		return
	}
	p.obj.set(p.off, v)
}

// nilCheck: pointer must not be nil (concrete); a nil pointer here is a PANIC finding.
func (in *Interp) nilCheck(p Ptr, what string) {
	if p.obj == nil {
		in.finding("PANIC", "nil-deref@"+in.siteID(), "nil pointer dereference ("+what+") at "+in.where(), in.model)
		in.endPath("panic")
	}
}

func (in *Interp) goPanic(msg string) {
	in.finding("PANIC", "panic@"+in.siteID(), msg+" at "+in.where(), in.model)
	in.endPath("panic")
}

func (in *Interp) term(v Value) *Term {
	t, ok := v.(*Term)
	if !ok {
		panic(engineErr(fmt.Sprintf("expected scalar, got %s at %s", valString(v), in.where())))
	}
	return t
}

// ---------- main step ----------

func (in *Interp) pushFrame(th *Thread, fn *ssa.Function, args []Value, bindings []Value, retReg int) *Frame {
	if len(fn.Blocks) == 0 {
		panic(engineErr("call of function without body: " + fn.String() + " at " + in.where()))
	}
	fi := in.info(fn)
	f := &Frame{fn: fn, info: fi, regs: make([]Value, fi.n), block: fn.Blocks[0], retReg: retReg}
	for i, p := range fn.Params {
		if i < len(args) {
			f.regs[fi.regOf[p]] = args[i]
		}
	}
	for i, fv := range fn.FreeVars {
		f.regs[fi.regOf[fv]] = bindings[i]
	}
	if len(th.frames) > 400 {
		panic(engineErr("call depth > 400 at " + fn.String()))
	}
	th.frames = append(th.frames, f)
	name := fn.String()
	if !in.usedFns[name] {
		in.usedFns[name] = true
	}
	return f
}

// step executes one instruction of thread th. Returns false when the thread cannot proceed (blocked/finished).
func (in *Interp) step(th *Thread) bool {
	f := th.frames[len(th.frames)-1]
	ins := f.block.Instrs[f.ip]
	in.steps++
	if in.steps > in.maxSteps {
		in.finding("UNWIND", "steps", fmt.Sprintf("instruction budget %d exhausted at %s", in.maxSteps, in.where()), nil)
		in.endPath("steps")
	}
	switch x := ins.(type) {
	case *ssa.Phi:
		// evaluate all phis of the block simultaneously
		var vals []Value
		n := 0
		for _, pi := range f.block.Instrs {
			ph, ok := pi.(*ssa.Phi)
			if !ok {
				break
			}
			idx := -1
			for i, pred := range f.block.Preds {
				if pred == f.prev {
					idx = i
					break
				}
			}
			vals = append(vals, in.get(f, ph.Edges[idx]))
			n++
		}
		for i := 0; i < n; i++ {
			in.set(f, f.block.Instrs[i].(*ssa.Phi), vals[i])
		}
		f.ip += n
		return true
	case *ssa.Jump:
		in.jump(f, f.block.Succs[0])
		return true
	case *ssa.If:
		c := in.term(in.get(f, x.Cond))
		if in.branch(c) {
			in.jump(f, f.block.Succs[0])
		} else {
			in.jump(f, f.block.Succs[1])
		}
		return true
	case *ssa.Return:
		var ret Value
		switch len(x.Results) {
		case 0:
		case 1:
			ret = in.get(f, x.Results[0])
		default:
			tu := make(Tuple, len(x.Results))
			for i, r := range x.Results {
				tu[i] = in.get(f, r)
			}
			ret = tu
		}
		in.doReturn(th, f, ret)
		return true
	case *ssa.RunDefers:
		if n := len(f.defers); n > 0 {
			d := f.defers[n-1]
			f.defers = f.defers[:n-1]
			return in.callValue(th, f, d.fn, d.meth, d.args, -1, d.site)
		}
		f.ip++
		return true
	case *ssa.Panic:
		v := in.get(f, x.X)
		in.goPanic("explicit panic: " + in.panicText(v))
		return true
	case *ssa.Go:
		return in.doGo(th, f, x)
	case *ssa.Defer:
		fnv, meth, args := in.prepareCall(f, &x.Call)
		f.defers = append(f.defers, &deferRec{fn: fnv, meth: meth, args: args, site: x})
		f.ip++
		return true
	case *ssa.Send:
		return in.doSend(th, f, x)
	case *ssa.Store:
		p := in.get(f, x.Addr).(Ptr)
		in.nilCheck(p, "store")
		in.store(p, x.Val.Type(), in.get(f, x.Val))
		f.ip++
		return true
	case *ssa.MapUpdate:
		in.mapUpdate(in.get(f, x.Map).(*MapObj), in.get(f, x.Key), in.get(f, x.Value))
		f.ip++
		return true
	case *ssa.DebugRef:
		f.ip++
		return true
	case *ssa.Call:
		fnv, meth, args := in.prepareCall(f, &x.Call)
		return in.callValue(th, f, fnv, meth, args, f.info.regOf[x], x)
	case *ssa.Select:
		return in.doSelect(th, f, x)
	case *ssa.UnOp:
		if x.Op == token.ARROW {
			return in.doRecv(th, f, x)
		}
	}
	// pure value instructions
	v := ins.(ssa.Value)
	in.set(f, v, in.evalInstr(f, ins))
	f.ip++
	return true
}

func (in *Interp) jump(f *Frame, to *ssa.BasicBlock) {
	// loop budget: count arrivals at a block from a later (back-edge) block
	if to.Index <= f.block.Index {
		if f.loops == nil {
			f.loops = map[*ssa.BasicBlock]int{}
		}
		f.loops[to]++
		if f.loops[to] > in.loopCap {
			in.finding("UNWIND", "loop@"+f.fn.String()+fmt.Sprintf("#b%d", to.Index), fmt.Sprintf("loop budget %d exceeded at %s", in.loopCap, in.where()), nil)
			in.endPath("unwind")
		}
	}
	f.prev = f.block
	f.block = to
	f.ip = 0
}

func (in *Interp) doReturn(th *Thread, f *Frame, ret Value) {
	th.frames = th.frames[:len(th.frames)-1]
	if f.onReturn != nil {
		f.onReturn(ret)
		return
	}
	if len(th.frames) == 0 {
		th.result = ret
		return
	}
	if f.retReg >= 0 {
		caller := th.frames[len(th.frames)-1]
		caller.regs[f.retReg] = ret
	}
}

func (in *Interp) panicText(v Value) string {
	if i, ok := v.(Iface); ok {
		if i.t == nil {
			return "nil"
		}
		if s, ok := i.v.(Str); ok && s.IsConcrete() {
			return s.Concrete()
		}
		return i.t.String()
	}
	return valString(v)
}

// evalInstr evaluates a side-effect-free (w.r.t. control) value instruction.
func (in *Interp) evalInstr(f *Frame, ins ssa.Instruction) Value {
	switch x := ins.(type) {
	case *ssa.Alloc:
		o := in.allocType(x.Type().(*types.Pointer).Elem(), x.Comment)
		return Ptr{obj: o}
	case *ssa.BinOp:
		return in.binop(x.Op, in.get(f, x.X), in.get(f, x.Y), x.X.Type(), x.Y.Type())
	case *ssa.UnOp:
		return in.unop(f, x)
	case *ssa.ChangeType:
		return in.get(f, x.X)
	case *ssa.ChangeInterface:
		return in.get(f, x.X)
	case *ssa.Convert:
		return in.convert(in.get(f, x.X), x.X.Type(), x.Type())
	case *ssa.MakeInterface:
		return Iface{t: x.X.Type(), v: in.get(f, x.X)}
	case *ssa.MakeClosure:
		b := make([]Value, len(x.Bindings))
		for i, bv := range x.Bindings {
			b[i] = in.get(f, bv)
		}
		return &FuncVal{fn: x.Fn.(*ssa.Function), bindings: b}
	case *ssa.MakeMap:
		mt := x.Type().Underlying().(*types.Map)
		m := &MapObj{id: in.nextObj, kt: mt.Key(), vt: mt.Elem()}
		in.nextObj++
		return m
	case *ssa.MakeChan:
		sz := in.term(in.get(f, x.Size))
		n := int(in.concretize(sz, "chan size"))
		c := &ChanObj{id: in.nextObj, cap: n, et: x.Type().Underlying().(*types.Chan).Elem()}
		in.nextObj++
		return c
	case *ssa.MakeSlice:
		return in.makeSlice(x.Type().Underlying().(*types.Slice).Elem(), in.to64(in.term(in.get(f, x.Len)), x.Len.Type()), in.to64(in.term(in.get(f, x.Cap)), x.Cap.Type()))
	case *ssa.FieldAddr:
		p := in.get(f, x.X).(Ptr)
		in.nilCheck(p, "field address")
		st := x.X.Type().Underlying().(*types.Pointer).Elem()
		return Ptr{obj: p.obj, off: p.off + in.lay.of(st).fields[x.Field]}
	case *ssa.Field:
		a := in.get(f, x.X).(Agg)
		li := in.lay.of(x.X.Type())
		off := li.fields[x.Field]
		ft := x.Type()
		n := in.lay.of(ft).n
		if isAggType(ft) {
			return Agg(append([]Value{}, a[off:off+n]...))
		}
		return a[off]
	case *ssa.IndexAddr:
		return in.indexAddr(f, x)
	case *ssa.Index:
		return in.index(f, x)
	case *ssa.Slice:
		return in.sliceOp(f, x)
	case *ssa.Lookup:
		return in.lookup(f, x)
	case *ssa.Extract:
		return in.get(f, x.Tuple).(Tuple)[x.Index]
	case *ssa.TypeAssert:
		return in.typeAssert(f, x)
	case *ssa.Range:
		return in.rangeInit(in.get(f, x.X), x.X.Type())
	case *ssa.Next:
		return in.rangeNext(in.get(f, x.Iter).(*IterState), x)
	case *ssa.SliceToArrayPointer:
		s := in.get(f, x.X).(Slice)
		return Ptr{obj: s.obj, off: s.off}
	case *ssa.MultiConvert:
		return in.convert(in.get(f, x.X), x.X.Type(), x.Type())
	}
	panic(engineErr(fmt.Sprintf("unsupported instruction %T at %s", ins, in.where())))
}

// ---------- operators ----------

func (in *Interp) unop(f *Frame, x *ssa.UnOp) Value {
	v := in.get(f, x.X)
	switch x.Op {
	case token.MUL:
		p := v.(Ptr)
		in.nilCheck(p, "load")
		return in.load(p, x.Type())
	case token.SUB:
		if fv, ok := v.(FloatVal); ok {
			return FloatVal{-fv.f}
		}
		return in.tc.Neg(in.term(v))
	case token.NOT:
		return in.tc.Not(in.term(v))
	case token.XOR:
		return in.tc.BNot(in.term(v))
	}
	panic(engineErr("unop " + x.Op.String()))
}

func (in *Interp) binop(op token.Token, a, b Value, ta, tb types.Type) Value {
	tc := in.tc
	switch x := a.(type) {
	case *Term:
		y := in.term(b)
		if x.w == 0 {
			switch op {
			case token.EQL:
				return tc.Eq(x, y)
			case token.NEQ:
				return tc.Ne(x, y)
			case token.AND, token.LAND:
				return tc.And(x, y)
			case token.OR, token.LOR:
				return tc.Or(x, y)
			}
			panic(engineErr("bool binop " + op.String()))
		}
		_, signed, _ := isIntType(ta)
		switch op {
		case token.ADD:
			return tc.Bin(OpAdd, x, y)
		case token.SUB:
			return tc.Bin(OpSub, x, y)
		case token.MUL:
			return tc.Bin(OpMul, x, y)
		case token.QUO, token.REM:
			in.vcSite(tc.Eq(y, tc.Const(0, y.w)), "divzero", "integer divide by zero")
			if op == token.QUO {
				if signed {
					return tc.Bin(OpSDiv, x, y)
				}
				return tc.Bin(OpUDiv, x, y)
			}
			if signed {
				return tc.Bin(OpSRem, x, y)
			}
			return tc.Bin(OpURem, x, y)
		case token.AND:
			return tc.Bin(OpBAnd, x, y)
		case token.OR:
			return tc.Bin(OpBOr, x, y)
		case token.XOR:
			return tc.Bin(OpBXor, x, y)
		case token.AND_NOT:
			return tc.Bin(OpBAnd, x, tc.BNot(y))
		case token.SHL, token.SHR:
			_, ysigned, _ := isIntType(tb)
			if ysigned {
				in.vcSite(tc.Bin(OpSlt, y, tc.Const(0, y.w)), "negshift", "negative shift amount")
			}
			// bring the shift count to x's width, saturating
			var sh *Term
			if y.w > x.w {
				sh = tc.Ite(tc.Bin(OpUlt, y, tc.Const(uint64(x.w), y.w)), tc.Extract(y, x.w-1, 0), tc.Const(uint64(x.w), x.w))
			} else {
				sh = tc.ZExt(y, x.w)
			}
			if op == token.SHL {
				return tc.Bin(OpShl, x, sh)
			}
			if signed {
				return tc.Bin(OpAShr, x, sh)
			}
			return tc.Bin(OpLShr, x, sh)
		case token.EQL:
			return tc.Eq(x, y)
		case token.NEQ:
			return tc.Ne(x, y)
		case token.LSS:
			if signed {
				return tc.Bin(OpSlt, x, y)
			}
			return tc.Bin(OpUlt, x, y)
		case token.LEQ:
			if signed {
				return tc.Bin(OpSle, x, y)
			}
			return tc.Bin(OpUle, x, y)
		case token.GTR:
			if signed {
				return tc.Bin(OpSlt, y, x)
			}
			return tc.Bin(OpUlt, y, x)
		case token.GEQ:
			if signed {
				return tc.Bin(OpSle, y, x)
			}
			return tc.Bin(OpUle, y, x)
		}
		panic(engineErr("int binop " + op.String()))
	case Str:
		y := b.(Str)
		switch op {
		case token.ADD:
			if x.sym == nil && y.sym == nil {
				return Str{s: x.s + y.s}
			}
			return mkStr(append(append([]*Term{}, x.Cells(tc)...), y.Cells(tc)...))
		case token.EQL:
			return in.strEq(x, y)
		case token.NEQ:
			return tc.Not(in.strEq(x, y))
		case token.LSS, token.LEQ, token.GTR, token.GEQ:
			if x.IsConcrete() && y.IsConcrete() {
				xs, ys := x.Concrete(), y.Concrete()
				switch op {
				case token.LSS:
					return tc.Bool(xs < ys)
				case token.LEQ:
					return tc.Bool(xs <= ys)
				case token.GTR:
					return tc.Bool(xs > ys)
				default:
					return tc.Bool(xs >= ys)
				}
			}
		}
		panic(engineErr("string binop " + op.String()))
	case FloatVal:
		y := b.(FloatVal)
		switch op {
		case token.ADD:
			return FloatVal{x.f + y.f}
		case token.SUB:
			return FloatVal{x.f - y.f}
		case token.MUL:
			return FloatVal{x.f * y.f}
		case token.QUO:
			return FloatVal{x.f / y.f}
		case token.LSS:
			return tc.Bool(x.f < y.f)
		case token.GTR:
			return tc.Bool(x.f > y.f)
		case token.EQL:
			return tc.Bool(x.f == y.f)
		case token.NEQ:
			return tc.Bool(x.f != y.f)
		case token.LEQ:
			return tc.Bool(x.f <= y.f)
		case token.GEQ:
			return tc.Bool(x.f >= y.f)
		}
	}
	switch op {
	case token.EQL:
		return in.valEq(a, b)
	case token.NEQ:
		return tc.Not(in.valEq(a, b))
	}
	panic(engineErr(fmt.Sprintf("binop %s on %T", op, a)))
}

func (in *Interp) strEq(x, y Str) *Term {
	tc := in.tc
	if x.Len() != y.Len() {
		return tc.False
	}
	if x.sym == nil && y.sym == nil {
		return tc.Bool(x.s == y.s)
	}
	xc, yc := x.Cells(tc), y.Cells(tc)
	r := tc.True
	for i := range xc {
		r = tc.And(r, tc.Eq(xc[i], yc[i]))
		if r == tc.False {
			break
		}
	}
	return r
}

// valEq: == on non-integer, non-string values.
func (in *Interp) valEq(a, b Value) *Term {
	tc := in.tc
	switch x := a.(type) {
	case *Term:
		return tc.Eq(x, in.term(b))
	case Str:
		if y, ok := b.(Str); ok {
			return in.strEq(x, y)
		}
		return tc.False
	case Ptr:
		y, ok := b.(Ptr)
		if !ok {
			return tc.False
		}
		return tc.Bool(x.obj == y.obj && (x.obj == nil || x.off == y.off))
	case Iface:
		y, ok := b.(Iface)
		if !ok {
			return tc.False
		}
		if x.t == nil || y.t == nil {
			return tc.Bool(x.t == nil && y.t == nil)
		}
		if !types.Identical(x.t, y.t) {
			return tc.False
		}
		return in.valEq(x.v, y.v)
	case *MapObj:
		y, _ := b.(*MapObj)
		return tc.Bool(x == y)
	case *ChanObj:
		y, _ := b.(*ChanObj)
		return tc.Bool(x == y)
	case *FuncVal:
		y, _ := b.(*FuncVal)
		return tc.Bool(x == nil && y == nil)
	case Slice:
		y := b.(Slice)
		return tc.Bool(x.obj == nil && y.obj == nil)
	case Agg:
		y := b.(Agg)
		r := tc.True
		for i := range x {
			r = tc.And(r, in.valEq(x[i], y[i]))
		}
		return r
	case FloatVal:
		return tc.Bool(x.f == b.(FloatVal).f)
	}
	panic(engineErr(fmt.Sprintf("valEq on %T", a)))
}

func (in *Interp) convert(v Value, from, to types.Type) Value {
	tc := in.tc
	fu, tu := from.Underlying(), to.Underlying()
	if tb, ok := tu.(*types.Basic); ok {
		if tb.Info()&types.IsInteger != 0 {
			w, _ := intWidth(tb)
			switch x := v.(type) {
			case *Term:
				_, fs, _ := isIntType(from)
				return tc.Resize(x, w, fs)
			case FloatVal:
				return tc.Const(uint64(int64(x.f)), w)
			case Ptr:
				// uintptr(unsafe.Pointer(p))
				if x.obj == nil {
					return tc.Const(0, w)
				}
				return tc.Const(uint64(0x10000+x.obj.id*4096+x.off*8), w)
			}
		}
		if tb.Info()&types.IsFloat != 0 {
			switch x := v.(type) {
			case *Term:
				_, fs, _ := isIntType(from)
				c := in.concretize(x, "int->float")
				if fs {
					return FloatVal{float64(sext64(c, x.w))}
				}
				return FloatVal{float64(c)}
			case FloatVal:
				return x
			}
		}
		if tb.Info()&types.IsString != 0 {
			switch x := v.(type) {
			case Str:
				return x
			case Slice:
				// []byte -> string
				if fs, ok := fu.(*types.Slice); ok {
					if eb, ok := fs.Elem().Underlying().(*types.Basic); ok && eb.Kind() == types.Uint8 {
						n := int(in.concretize(x.len, "[]byte->string len"))
						cells := make([]*Term, n)
						for i := 0; i < n; i++ {
							cells[i] = in.term(x.obj.get(x.off + i))
						}
						if in.raceOn && n > 0 {
							in.raceAccess(x.obj, x.off, n, false)
						}
						return mkStr(cells)
					}
				}
			case *Term:
				// string(rune)
				c := in.concretize(x, "rune->string")
				return Str{s: string(rune(c))}
			}
		}
		if tb.Kind() == types.UnsafePointer {
			return v
		}
	}
	if ts, ok := tu.(*types.Slice); ok {
		if s, ok := v.(Str); ok {
			if eb, ok := ts.Elem().Underlying().(*types.Basic); ok && eb.Kind() == types.Uint8 {
				cells := s.Cells(tc)
				o := in.newObject(len(cells), "[]byte(string)")
				for i, c := range cells {
					o.cells[i] = c
				}
				in.noteAlloc(tc.Const(uint64(len(cells)), 64))
				n := tc.Const(uint64(len(cells)), 64)
				return Slice{obj: o, len: n, cap: n}
			}
		}
		if _, ok := v.(Slice); ok {
			return v
		}
	}
	if _, ok := tu.(*types.Pointer); ok {
		return v
	}
	panic(engineErr(fmt.Sprintf("convert %s -> %s (%T) at %s", from, to, v, in.where())))
}

func (in *Interp) noteAlloc(n *Term) {
	if in.allocBytes == nil {
		in.allocBytes = in.tc.Const(0, 64)
	}
	in.allocBytes = in.tc.Bin(OpAdd, in.allocBytes, n)
}

func (in *Interp) makeSlice(elem types.Type, ln, cp *Term) Value {
	tc := in.tc
	esz := in.lay.of(elem).n
	zero64 := tc.Const(0, 64)
	in.vcSite(tc.Or(tc.Bin(OpSlt, ln, zero64), tc.Bin(OpSlt, cp, ln)), "makeslice", "makeslice: len out of range")
	in.noteAlloc(tc.Bin(OpMul, cp, tc.Const(uint64(in.sizeofApprox(elem)), 64)))
	if !cp.IsConst() {
		// symbolic size: concretise when the feasible set is small, else lazy object
		if in.pos < len(in.prefix) || !in.feasibleMoreThan(cp, in.concCap) {
			if in.peekLazy() {
				return in.lazySlice(elem, ln, cp)
			}
			c := in.concretize(cp, "make cap")
			cp = tc.Const(c, 64)
		} else {
			in.markLazy()
			return in.lazySlice(elem, ln, cp)
		}
	}
	n := int(cp.k)
	if n > 1<<26 {
		in.finding("PANIC", "hugealloc@"+in.siteID(), fmt.Sprintf("allocation of %d elements at %s", n, in.where()), in.model)
		in.endPath("panic")
	}
	if !ln.IsConst() {
		ln = tc.Const(in.concretize(ln, "make len"), 64)
	}
	zc := in.zeroCells(elem, nil)
	o := in.newObject(n*esz, "make")
	for i := 0; i < n; i++ {
		copy(o.cells[i*esz:], zc)
	}
	return Slice{obj: o, len: ln, cap: cp}
}

// Lazy-vs-concrete is itself a decision so that re-execution is deterministic.
func (in *Interp) peekLazy() bool {
	if in.pos < len(in.prefix) && in.prefix[in.pos].K == DChoice && in.prefix[in.pos].V == 999999 {
		in.dec = append(in.dec, in.prefix[in.pos])
		in.pos++
		return true
	}
	return false
}
func (in *Interp) markLazy() { in.dec = append(in.dec, Decision{DChoice, 999999}) }

func (in *Interp) lazySlice(elem types.Type, ln, cp *Term) Value {
	o := in.newObject(0, "make(lazy)")
	o.cells = nil
	o.lazy = map[int]Value{}
	o.zero = in.zeroCells(elem, nil)
	o.ncells = cp
	return Slice{obj: o, len: ln, cap: cp}
}

func (in *Interp) sizeofApprox(t types.Type) int {
	switch u := t.Underlying().(type) {
	case *types.Basic:
		if w, _ := intWidth(u); w > 0 {
			return w / 8
		}
		if u.Info()&types.IsString != 0 {
			return 16
		}
		return 8
	case *types.Struct:
		n := 0
		for i := 0; i < u.NumFields(); i++ {
			n += in.sizeofApprox(u.Field(i).Type())
		}
		return n
	case *types.Array:
		return int(u.Len()) * in.sizeofApprox(u.Elem())
	case *types.Slice:
		return 24
	case *types.Interface:
		return 16
	}
	return 8
}

// boundsVC: idx (64-bit term) must satisfy 0 <= idx < n (or <= n when incl).
func (in *Interp) boundsVC(idx, n *Term, incl bool, what string) {
	tc := in.tc
	var bad *Term
	if incl {
		bad = tc.Bin(OpUlt, n, idx)
	} else {
		bad = tc.Bin(OpUle, n, idx)
	}
	in.vcSite(bad, "bounds", what+" out of range")
}

func (in *Interp) to64(t *Term, typ types.Type) *Term {
	_, s, _ := isIntType(typ)
	return in.tc.Resize(t, 64, s)
}

func (in *Interp) indexAddr(f *Frame, x *ssa.IndexAddr) Value {
	base := in.get(f, x.X)
	idx := in.to64(in.term(in.get(f, x.Index)), x.Index.Type())
	switch bt := x.X.Type().Underlying().(type) {
	case *types.Slice:
		s := base.(Slice)
		esz := in.lay.of(bt.Elem()).n
		in.boundsVC(idx, s.len, false, "index")
		i := int(in.concretize(idx, "index"))
		return Ptr{obj: s.obj, off: s.off + i*esz}
	case *types.Pointer:
		p := base.(Ptr)
		in.nilCheck(p, "array index")
		at := bt.Elem().Underlying().(*types.Array)
		esz := in.lay.of(at.Elem()).n
		in.boundsVC(idx, in.tc.Const(uint64(at.Len()), 64), false, "index")
		i := int(in.concretize(idx, "index"))
		return Ptr{obj: p.obj, off: p.off + i*esz}
	}
	panic(engineErr("indexaddr on " + x.X.Type().String()))
}

// muxLoad: load of a scalar slice element at a symbolic index as an ite chain.
func (in *Interp) muxLoad(obj *Object, off, esz, n int, idx *Term) *Term {
	tc := in.tc
	var r *Term
	for i := n - 1; i >= 0; i-- {
		c := in.term(obj.get(off + i*esz))
		if r == nil {
			r = c
		} else {
			r = tc.Ite(tc.Eq(idx, tc.Const(uint64(i), 64)), c, r)
		}
	}
	return r
}

func (in *Interp) index(f *Frame, x *ssa.Index) Value {
	base := in.get(f, x.X)
	idx := in.to64(in.term(in.get(f, x.Index)), x.Index.Type())
	switch b := base.(type) {
	case Str:
		in.boundsVC(idx, in.tc.Const(uint64(b.Len()), 64), false, "string index")
		if idx.IsConst() {
			if b.sym != nil {
				return b.sym[idx.k]
			}
			return in.tc.Const(uint64(b.s[idx.k]), 8)
		}
		cells := b.Cells(in.tc)
		var r *Term
		for i := len(cells) - 1; i >= 0; i-- {
			if r == nil {
				r = cells[i]
			} else {
				r = in.tc.Ite(in.tc.Eq(idx, in.tc.Const(uint64(i), 64)), cells[i], r)
			}
		}
		return r
	case Agg:
		at := x.X.Type().Underlying().(*types.Array)
		esz := in.lay.of(at.Elem()).n
		in.boundsVC(idx, in.tc.Const(uint64(at.Len()), 64), false, "array index")
		i := int(in.concretize(idx, "array index"))
		if isAggType(at.Elem()) {
			return Agg(append([]Value{}, b[i*esz:(i+1)*esz]...))
		}
		return b[i*esz]
	}
	panic(engineErr("index on " + x.X.Type().String()))
}

func (in *Interp) sliceOp(f *Frame, x *ssa.Slice) Value {
	tc := in.tc
	base := in.get(f, x.X)
	var lo, hi, max *Term
	if x.Low != nil {
		lo = in.to64(in.term(in.get(f, x.Low)), x.Low.Type())
	}
	if x.High != nil {
		hi = in.to64(in.term(in.get(f, x.High)), x.High.Type())
	}
	if x.Max != nil {
		max = in.to64(in.term(in.get(f, x.Max)), x.Max.Type())
	}
	zero := tc.Const(0, 64)
	if lo == nil {
		lo = zero
	}
	switch b := base.(type) {
	case Str:
		n := tc.Const(uint64(b.Len()), 64)
		if hi == nil {
			hi = n
		}
		in.boundsVC(hi, n, true, "string slice high")
		in.boundsVC(lo, hi, true, "string slice low")
		l, h := int(in.concretize(lo, "slice lo")), int(in.concretize(hi, "slice hi"))
		if b.sym == nil {
			return Str{s: b.s[l:h]}
		}
		return mkStr(b.sym[l:h])
	case Slice:
		esz := in.lay.of(x.X.Type().Underlying().(*types.Slice).Elem()).n
		if hi == nil {
			hi = b.len
		}
		if max == nil {
			max = b.cap
		} else {
			in.boundsVC(max, b.cap, true, "slice max")
		}
		in.boundsVC(hi, max, true, "slice high")
		in.boundsVC(lo, hi, true, "slice low")
		l := int(in.concretize(lo, "slice lo"))
		nl := tc.Bin(OpSub, hi, lo)
		nc := tc.Bin(OpSub, max, lo)
		if b.obj == nil {
			return Slice{len: zero, cap: zero}
		}
		// a symbolic length is kept symbolic (bounds are VCs); it is concretised only where a shape is needed
		return Slice{obj: b.obj, off: b.off + l*esz, len: nl, cap: nc}
	case Ptr:
		in.nilCheck(b, "slice of array")
		at := x.X.Type().Underlying().(*types.Pointer).Elem().Underlying().(*types.Array)
		esz := in.lay.of(at.Elem()).n
		n := tc.Const(uint64(at.Len()), 64)
		if hi == nil {
			hi = n
		}
		if max == nil {
			max = n
		} else {
			in.boundsVC(max, n, true, "slice max")
		}
		in.boundsVC(hi, max, true, "slice high")
		in.boundsVC(lo, hi, true, "slice low")
		l := int(in.concretize(lo, "slice lo"))
		h := in.concretize(hi, "slice hi")
		return Slice{obj: b.obj, off: b.off + l*esz, len: tc.Const(h-uint64(l), 64), cap: tc.Bin(OpSub, max, tc.Const(uint64(l), 64))}
	}
	panic(engineErr("slice on " + x.X.Type().String()))
}

func (in *Interp) typeAssert(f *Frame, x *ssa.TypeAssert) Value {
	v := in.get(f, x.X).(Iface)
	ok := false
	var res Value
	if v.t != nil {
		if it, isI := x.AssertedType.Underlying().(*types.Interface); isI {
			ok = types.Implements(v.t, it)
			if ok {
				res = v
			}
		} else {
			ok = types.Identical(v.t, x.AssertedType)
			if ok {
				res = v.v
			}
		}
	}
	if x.CommaOk {
		if !ok {
			res = in.zeroValue(x.AssertedType)
		}
		return Tuple{res, in.tc.Bool(ok)}
	}
	if !ok {
		ts := "nil"
		if v.t != nil {
			ts = v.t.String()
		}
		in.goPanic("interface conversion: " + ts + " is not " + x.AssertedType.String())
	}
	return res
}

// ---------- maps ----------

func (in *Interp) keyEq(a, b Value) *Term { return in.valEq(a, b) }

// mapFind returns the index of key in m, forking on symbolic equalities; -1 if absent.
func (in *Interp) mapFind(m *MapObj, key Value) int {
	if m == nil {
		return -1
	}
	for i, k := range m.keys {
		if in.branch(in.keyEq(k, key)) {
			return i
		}
	}
	return -1
}

func (in *Interp) lookup(f *Frame, x *ssa.Lookup) Value {
	base := in.get(f, x.X)
	if s, ok := base.(Str); ok {
		idx := in.to64(in.term(in.get(f, x.Index)), x.Index.Type())
		in.boundsVC(idx, in.tc.Const(uint64(s.Len()), 64), false, "string index")
		i := in.concretize(idx, "string index")
		return s.Cells(in.tc)[i]
	}
	m := base.(*MapObj)
	if in.raceOn && m != nil {
		in.raceMap(m, false)
	}
	i := in.mapFind(m, in.get(f, x.Index))
	vt := x.X.Type().Underlying().(*types.Map).Elem()
	var v Value
	if i >= 0 {
		v = m.vals[i]
	} else {
		v = in.zeroValue(vt)
	}
	if x.CommaOk {
		return Tuple{v, in.tc.Bool(i >= 0)}
	}
	return v
}

func (in *Interp) mapUpdate(m *MapObj, k, v Value) {
	if m == nil {
		in.goPanic("assignment to entry in nil map")
	}
	if in.raceOn {
		in.raceMap(m, true)
	}
	i := in.mapFind(m, k)
	if i >= 0 {
		m.vals[i] = v
		return
	}
	m.keys = append(m.keys, k)
	m.vals = append(m.vals, v)
}

func (in *Interp) mapDelete(m *MapObj, k Value) {
	if m == nil {
		return
	}
	if in.raceOn {
		in.raceMap(m, true)
	}
	i := in.mapFind(m, k)
	if i >= 0 {
		m.keys = append(append([]Value{}, m.keys[:i]...), m.keys[i+1:]...)
		m.vals = append(append([]Value{}, m.vals[:i]...), m.vals[i+1:]...)
	}
}

func (in *Interp) rangeInit(v Value, t types.Type) Value {
	switch x := v.(type) {
	case *MapObj:
		it := &IterState{m: x}
		if x != nil {
			if in.raceOn {
				in.raceMap(x, false)
			}
			it.keys = append([]Value{}, x.keys...)
			it.vals = append([]Value{}, x.vals...)
			// map iteration order is unspecified: explore rotations of the insertion order
			if n := len(it.keys); n > 1 && in.mapOrderChoices() {
				r := in.choose(n, DChoice)
				it.keys = append(it.keys[r:], it.keys[:r]...)
				it.vals = append(it.vals[r:], it.vals[:r]...)
			}
		}
		return it
	case Str:
		return &IterState{str: x, isStr: true}
	}
	panic(engineErr("range over " + t.String()))
}

func (in *Interp) mapOrderChoices() bool { return in.mapOrder }

func (in *Interp) rangeNext(it *IterState, x *ssa.Next) Value {
	tc := in.tc
	if it.isStr {
		if it.i >= it.str.Len() {
			return Tuple{tc.False, tc.Const(0, 64), tc.Const(0, 32)}
		}
		// byte-wise decoding for ASCII; symbolic or non-ASCII bytes are concretised
		cells := it.str.Cells(tc)
		i := it.i
		// an ASCII byte is its own rune: stays symbolic; only non-ASCII lead bytes are concretised
		if in.branch(tc.Bin(OpUlt, cells[i], tc.Const(0x80, 8))) {
			it.i++
			return Tuple{tc.True, tc.Const(uint64(i), 64), tc.ZExt(cells[i], 32)}
		}
		saved := in.concCap
		if in.concCap < 130 {
			in.concCap = 130
		}
		c := in.concretize(cells[it.i], "range string byte")
		in.concCap = saved
		if c < 0x80 {
			it.i++
			return Tuple{tc.True, tc.Const(uint64(i), 64), tc.Const(c, 32)}
		}
		// decode multi-byte rune from concrete bytes
		var bs []byte
		for j := i; j < len(cells) && j < i+4; j++ {
			bs = append(bs, byte(in.concretize(cells[j], "range string byte")))
		}
		r, sz := decodeRune(bs)
		it.i += sz
		return Tuple{tc.True, tc.Const(uint64(i), 64), tc.Const(uint64(r), 32)}
	}
	if it.i >= len(it.keys) {
		mt := x.Iter.(*ssa.Range).X.Type().Underlying().(*types.Map)
		return Tuple{tc.False, in.zeroValue(mt.Key()), in.zeroValue(mt.Elem())}
	}
	// skip entries deleted since the range started
	for it.i < len(it.keys) {
		k, v := it.keys[it.i], it.vals[it.i]
		it.i++
		present := false
		for j, mk := range it.m.keys {
			if e := in.keyEq(mk, k); e.IsConst() && e.k != 0 {
				present = true
				v = it.m.vals[j]
				break
			}
		}
		if present {
			return Tuple{tc.True, k, v}
		}
	}
	mt := x.Iter.(*ssa.Range).X.Type().Underlying().(*types.Map)
	return Tuple{tc.False, in.zeroValue(mt.Key()), in.zeroValue(mt.Elem())}
}

func decodeRune(b []byte) (rune, int) {
	s := string(b)
	for _, r := range s {
		n := len(string(r))
		if r == 0xFFFD {
			return r, 1
		}
		return r, n
	}
	return 0xFFFD, 1
}

// vcSite: panic VC whose id/message (source-text based) are only computed when needed.
func (in *Interp) vcSite(bad *Term, tag, msg string) {
	if bad.IsConst() && bad.k == 0 {
		return
	}
	in.vcLazy(bad, "PANIC", func() (string, string) { return tag + "@" + in.siteID(), msg + " at " + in.where() })
}
