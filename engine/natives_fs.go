package main

import "go/types"

// Natives needed by the model-FS harnesses (C14–C18): std functions without a Go body that path/filepath.Join,
// strings.Join and strings.Builder reach.

func init() {
	// internal/bytealg.MakeNoZero(n) []byte: an n-byte slice (contents unspecified natively; zero here), cap == len.
	natives["internal/bytealg.MakeNoZero"] = func(in *Interp, cc *callCtx, args []Value) (Value, nativeStatus) {
		n := in.to64(in.term(args[0]), types.Typ[types.Int])
		return in.makeSlice(types.Typ[types.Byte], n, n), nDone
	}
}
