package main

import (
	"encoding/json"
	"flag"
	"fmt"
	"go/types"
	"os"
	"path/filepath"
	"runtime/debug"
	"runtime/pprof"
	"sort"
	"strconv"
	"strings"
	"sync"
	"time"

	"golang.org/x/tools/go/packages"
	"golang.org/x/tools/go/ssa"
	"golang.org/x/tools/go/ssa/ssautil"
)

var repoDir = "/repo" // VERIF_REPO overrides (seeded-defect evaluation runs the checks against a scratch worktree)

var verifDir = "/verif"

func loadEnv() []string {
	env := []string{}
	for _, e := range os.Environ() {
		if strings.HasPrefix(e, "GOFLAGS=") || strings.HasPrefix(e, "GOPROXY=") || strings.HasPrefix(e, "GOTOOLCHAIN=") || strings.HasPrefix(e, "GOSUMDB=") {
			continue
		}
		env = append(env, e)
	}
	return append(env, "GOFLAGS=-mod=mod", "GOPROXY=off", "GOTOOLCHAIN=auto")
}

// harnessFiles resolves a file-set spec ("api,ref_wire,c01") to overlay entries.
func harnessOverlay(sets []string, native bool) (map[string][]byte, error) {
	ov := map[string][]byte{}
	dir := filepath.Join(verifDir, "harness")
	ents, err := os.ReadDir(dir)
	if err != nil {
		return nil, err
	}
	for _, e := range ents {
		n := e.Name()
		if !strings.HasSuffix(n, ".go") {
			continue
		}
		base := strings.TrimSuffix(n, ".go")
		isNative := strings.HasSuffix(base, "_native")
		isSym := strings.HasSuffix(base, "_sym")
		if isNative && !native || isSym && native {
			continue
		}
		root := strings.TrimSuffix(strings.TrimSuffix(base, "_native"), "_sym")
		match := false
		for _, s := range sets {
			if root == s || strings.HasPrefix(root, s+"_") {
				match = true
			}
		}
		if !match {
			continue
		}
		b, err := os.ReadFile(filepath.Join(dir, n))
		if err != nil {
			return nil, err
		}
		ov[filepath.Join(repoDir, "zz_verif_"+n)] = b
	}
	return ov, nil
}

func loadProgram(sets []string) (*Program, error) {
	ov, err := harnessOverlay(sets, false)
	if err != nil {
		return nil, err
	}
	cfg := &packages.Config{Mode: packages.LoadAllSyntax, Dir: repoDir, Env: loadEnv(), Overlay: ov}
	pkgs, err := packages.Load(cfg, ".")
	if err != nil {
		return nil, err
	}
	var errs []string
	packages.Visit(pkgs, nil, func(p *packages.Package) {
		for _, e := range p.Errors {
			errs = append(errs, e.Error())
		}
	})
	if len(errs) > 0 {
		return nil, fmt.Errorf("HARNESS-BUILD-ERROR: %s", strings.Join(errs, "\n"))
	}
	prog, spkgs := ssautil.AllPackages(pkgs, ssa.InstantiateGenerics)
	prog.Build()
	p := &Program{prog: prog, pkg: spkgs[0], fset: pkgs[0].Fset, stubFns: map[string]*ssa.Function{}, gopkg: pkgs[0]}
	for name, m := range p.pkg.Members {
		if fn, ok := m.(*ssa.Function); ok && strings.HasPrefix(name, "vxstub_") {
			p.stubFns[strings.TrimPrefix(name, "vxstub_")] = fn
		}
	}
	return p, nil
}

func mangle(name string) string {
	var sb strings.Builder
	for _, r := range name {
		switch {
		case r >= 'a' && r <= 'z', r >= 'A' && r <= 'Z', r >= '0' && r <= '9':
			sb.WriteRune(r)
		case r == '(' || r == ')' || r == '*':
		default:
			sb.WriteByte('_')
		}
	}
	return sb.String()
}

type RunSpec struct {
	Harness  string   `json:"harness"`
	Args     []string `json:"args,omitempty"`
	Files    []string `json:"files"`
	Preempt  int      `json:"preempt,omitempty"`
	Race     bool     `json:"race,omitempty"`
	MaxPaths int      `json:"maxpaths,omitempty"`
	TimeoutS int      `json:"timeout_s,omitempty"`
	ConcCap  int      `json:"conc_cap,omitempty"`
	LoopCap  int      `json:"loop_cap,omitempty"`
	MaxSteps int64    `json:"max_steps,omitempty"`
	MapOrder bool     `json:"map_order,omitempty"`
	Reach    []string `json:"reach,omitempty"`
	Bounds   string   `json:"bounds,omitempty"`
	Raw      bool     `json:"raw,omitempty"`
	Solver   string   `json:"solver,omitempty"` // overrides the default solver for this run (cross-solver runs)
	FreeSw   int      `json:"free_switches,omitempty"` // 0: unbounded; n>0: at most n non-default choices when a goroutine blocks
}

type RunResult struct {
	Spec       RunSpec           `json:"spec"`
	Paths      int               `json:"paths"`
	Forks      int               `json:"forks"`
	VCs        int               `json:"vcs"`
	Steps      int64             `json:"steps"`
	Queries    map[string]int    `json:"queries"`
	SolverS    float64           `json:"solver_s"`
	WallS      float64           `json:"wall_s"`
	Findings   []*Finding        `json:"findings"`
	Reached    map[string]int    `json:"reached"`
	Inconcl    []string          `json:"inconclusive,omitempty"`
	EngineErr  []string          `json:"engine_errors,omitempty"`
	Funcs      []string          `json:"functions"`
	Stubs      []string          `json:"stubs"`
	Samples    []Sample          `json:"samples"`
	Exhaustive bool              `json:"exhaustive"`
	EndReasons map[string]int    `json:"end_reasons"`
}

func parseArgs(fn *ssa.Function, args []string, tc *TermCtx) ([]Value, error) {
	if len(args) != len(fn.Params) {
		return nil, fmt.Errorf("harness %s takes %d args, got %d", fn.Name(), len(fn.Params), len(args))
	}
	var vals []Value
	for i, p := range fn.Params {
		switch u := p.Type().Underlying().(type) {
		case *types.Basic:
			switch {
			case u.Info()&types.IsBoolean != 0:
				vals = append(vals, tc.Bool(args[i] == "true"))
			case u.Info()&types.IsInteger != 0:
				n, err := strconv.ParseInt(args[i], 0, 64)
				if err != nil {
					return nil, err
				}
				w, _ := intWidth(u)
				vals = append(vals, tc.Const(uint64(n), w))
			case u.Info()&types.IsString != 0:
				vals = append(vals, Str{s: args[i]})
			default:
				return nil, fmt.Errorf("unsupported harness param type %s", p.Type())
			}
		default:
			return nil, fmt.Errorf("unsupported harness param type %s", p.Type())
		}
	}
	return vals, nil
}

func runHarness(p *Program, spec RunSpec, solverKind string, workers int, seed int64) *RunResult {
	t0 := time.Now()
	if spec.Solver != "" {
		solverKind = spec.Solver
	}
	if spec.TimeoutS == 0 {
		spec.TimeoutS = 600
	}
	if spec.ConcCap == 0 {
		spec.ConcCap = 96
	}
	if spec.LoopCap == 0 {
		spec.LoopCap = 100000
	}
	if spec.MaxSteps == 0 {
		spec.MaxSteps = 20000000
	}
	res := &RunResult{Spec: spec, Queries: map[string]int{}, EndReasons: map[string]int{}}
	fn := p.pkg.Func(spec.Harness)
	if fn == nil {
		res.EngineErr = append(res.EngineErr, "HARNESS-BUILD-ERROR: no harness function "+spec.Harness)
		return res
	}
	ex := NewExplorer(seed, spec.MaxPaths, t0.Add(time.Duration(spec.TimeoutS)*time.Second))
	ex.stack = []*WorkItem{{model: Model{}}}
	var wg sync.WaitGroup
	var mu sync.Mutex
	for w := 0; w < workers; w++ {
		wg.Add(1)
		go func(w int) {
			defer wg.Done()
			solver, err := NewSolver(solverKind, 20)
			if err != nil {
				mu.Lock()
				res.EngineErr = append(res.EngineErr, err.Error())
				mu.Unlock()
				return
			}
			defer solver.Close()
			in := &Interp{p: p, solver: solver, ex: ex, lay: &Layouts{cache: map[types.Type]*layoutInfo{}}, fninfo: map[*ssa.Function]*fnInfo{},
				harness: spec.Harness, names: map[*ssa.Function]string{}, harnessFn: map[*ssa.Function]bool{}, usedFns: map[string]bool{}, usedStubs: map[string]bool{}, mangledNames: map[*ssa.Function]string{}}
			npaths := 0
			for {
				item := ex.pop()
				if item == nil {
					break
				}
				npaths++
				if npaths%300 == 0 {
					solver.Reset()
				}
				reason := in.runPath(fn, spec, item)
				mu.Lock()
				res.EndReasons[reason]++
				mu.Unlock()
				ex.done()
			}
			mu.Lock()
			for i := 0; i < 3; i++ {
				res.Queries[Verdict(i).String()] += solver.Queries[i]
			}
			res.SolverS += solver.Time.Seconds()
			for _, e := range solver.Errors {
				if len(res.Inconcl) < 20 {
					res.Inconcl = append(res.Inconcl, "INCONCLUSIVE: solver error: "+e)
				}
			}
			for f := range in.usedFns {
				ex.funcs[f] = true
			}
			for f := range in.usedStubs {
				ex.stubs[f] = true
			}
			res.Steps += in.totalSteps
			mu.Unlock()
		}(w)
	}
	wg.Wait()
	res.Paths = ex.Paths
	res.Forks = ex.Forks
	res.VCs = ex.VCs
	res.Findings = ex.Findings()
	res.Reached = ex.reached
	res.Inconcl = append(res.Inconcl, ex.Inconcl...)
	res.EngineErr = append(res.EngineErr, ex.EngineErr...)
	for f := range ex.funcs {
		res.Funcs = append(res.Funcs, f)
	}
	sort.Strings(res.Funcs)
	for f := range ex.stubs {
		res.Stubs = append(res.Stubs, f)
	}
	sort.Strings(res.Stubs)
	res.Samples = ex.samples
	res.Exhaustive = !ex.stopped && len(res.EngineErr) == 0
	res.WallS = time.Since(t0).Seconds()
	return res
}

// runPath executes one path (decision prefix) of the harness.
func (in *Interp) runPath(fn *ssa.Function, spec RunSpec, item *WorkItem) (reason string) {
	in.tc = NewTermCtx()
	in.tc.Raw = spec.Raw
	in.prefix = item.dec
	in.pos = 0
	in.dec = in.dec[:0]
	in.pc = nil
	in.known = map[*Term]bool{}
	in.concKnown = map[*Term]uint64{}
	in.substGen = -1
	in.substMemo = nil
	in.setModel(item.model)
	in.nondet = nil
	in.observed = nil
	in.events = nil
	in.schedLog = nil
	in.nextObj = 1
	in.globals = map[*ssa.Global]*Object{}
	in.inited = map[*ssa.Package]bool{}
	in.consts = map[*ssa.Const]Value{}
	in.steps = 0
	in.maxSteps = spec.MaxSteps
	in.concCap = spec.ConcCap
	in.loopCap = spec.LoopCap
	in.allocBytes = nil
	in.varSeq = map[string]int{}
	in.threads = nil
	in.preempts = 0
	in.maxPreempt = spec.Preempt
	in.frees = 0
	in.maxFree = -1
	if spec.FreeSw > 0 {
		in.maxFree = spec.FreeSw
	} else if spec.FreeSw < 0 {
		in.maxFree = 0 // deterministic successor at blocking points
	}
	in.raceOn = spec.Race
	in.mapOrder = spec.MapOrder
	in.mutexes = map[*Object]map[int]*mutexState{}
	in.cur = nil
	in.solver.Push()
	defer func() {
		in.totalSteps += in.steps
		in.solver.Pop()
		if r := recover(); r != nil {
			switch e := r.(type) {
			case pathEnd:
				reason = e.reason
			case engineErr:
				reason = "engine-error"
				in.ex.mu.Lock()
				if len(in.ex.EngineErr) < 10 {
					in.ex.EngineErr = append(in.ex.EngineErr, fmt.Sprintf("%s | at %s | stack %v | dec %s", string(e), in.where(), in.stack(), decString(in.dec)))
				}
				in.ex.mu.Unlock()
			default:
				reason = "engine-crash"
				in.ex.mu.Lock()
				if len(in.ex.EngineErr) < 10 {
					in.ex.EngineErr = append(in.ex.EngineErr, fmt.Sprintf("engine crash: %v | at %s | stack %v | dec %s\n%s", r, in.where(), in.stack(), decString(in.dec), firstLines(string(debug.Stack()), 24)))
				}
				in.ex.mu.Unlock()
			}
		}
		if reason == "ok" {
			in.recordSample("ok")
		}
	}()
	main := in.newThread("main")
	in.cur = main
	in.ensureInit(in.p.pkg)
	args, err := parseArgs(fn, spec.Args, in.tc)
	if err != nil {
		panic(engineErr(err.Error()))
	}
	in.pushFrame(main, fn, args, nil, -1)
	for {
		th := in.cur
		if th.state != tsRunnable {
			if !in.pick() {
				break
			}
			continue
		}
		ok := in.step(th)
		if len(th.frames) == 0 {
			th.state = tsDone
			if th == main {
				break
			}
			if !in.pick() {
				break
			}
			continue
		}
		if !ok && in.cur == th && th.state == tsRunnable {
			// blocked natives leave the thread parked; a runnable thread returning false was preempted
			continue
		}
	}
	if in.pos < len(in.prefix) {
		panic(engineErr(fmt.Sprintf("path ended with %d unconsumed prefix decisions", len(in.prefix)-in.pos)))
	}
	return "ok"
}

func (in *Interp) recordSample(verdict string) {
	in.ex.mu.Lock()
	n := len(in.ex.samples)
	in.ex.mu.Unlock()
	if n >= in.ex.maxSamples {
		return
	}
	s := Sample{Harness: in.harness, Dec: decString(in.dec), Nondet: in.nondetValues(in.model), Observe: in.observeValues(in.model), Verdict: verdict}
	in.ex.mu.Lock()
	if len(in.ex.samples) < in.ex.maxSamples {
		in.ex.samples = append(in.ex.samples, s)
	}
	in.ex.mu.Unlock()
}

func main() {
	if len(os.Args) < 2 {
		fmt.Fprintln(os.Stderr, "usage: gosym run|check|selftest ...")
		os.Exit(2)
	}
	if v := os.Getenv("VERIF_DIR"); v != "" {
		verifDir = v
	}
	if v := os.Getenv("VERIF_REPO"); v != "" {
		repoDir = v
	}
	switch os.Args[1] {
	case "run":
		fs := flag.NewFlagSet("run", flag.ExitOnError)
		harness := fs.String("harness", "", "harness function")
		args := fs.String("args", "", "comma separated args")
		files := fs.String("files", "api", "harness file sets")
		solver := fs.String("solver", "z3", "z3|z3-new|cvc5")
		workers := fs.Int("workers", 16, "")
		preempt := fs.Int("preempt", 0, "")
		race := fs.Bool("race", false, "")
		maxpaths := fs.Int("maxpaths", 0, "")
		timeout := fs.Int("timeout", 600, "")
		conccap := fs.Int("conccap", 0, "")
		seed := fs.Int64("seed", 1, "")
		verbose := fs.Bool("v", false, "")
		freesw := fs.Int("freesw", 0, "bound on non-default choices at blocking points (0 = unbounded)")
		raw := fs.Bool("raw", false, "no term rewriting: all VCs go to the solver")
		fs.Parse(os.Args[2:])
		p, err := loadProgram(strings.Split(*files, ","))
		if err != nil {
			fmt.Fprintln(os.Stderr, err)
			os.Exit(3)
		}
		spec := RunSpec{Harness: *harness, Files: strings.Split(*files, ","), Preempt: *preempt, Race: *race, MaxPaths: *maxpaths, TimeoutS: *timeout, ConcCap: *conccap, Raw: *raw, FreeSw: *freesw}
		if *args != "" {
			spec.Args = strings.Split(*args, ",")
		}
		qprofOn = os.Getenv("VX_QPROF") != ""
		if pf := os.Getenv("VX_CPUPROF"); pf != "" {
			f, _ := os.Create(pf)
			pprof.StartCPUProfile(f)
			defer pprof.StopCPUProfile()
		}
		res := runHarness(p, spec, *solver, *workers, *seed)
		if qprofOn {
			qprofDump()
		}
		if *verbose {
			b, _ := json.MarshalIndent(res, "", " ")
			fmt.Println(string(b))
		} else {
			printSummary(res)
		}
	case "check":
		os.Exit(cmdCheck(os.Args[2:]))
	case "selftest":
		os.Exit(cmdSelftest(os.Args[2:]))
	default:
		fmt.Fprintln(os.Stderr, "unknown command")
		os.Exit(2)
	}
}

func printSummary(res *RunResult) {
	fmt.Printf("harness %s%v: paths=%d forks=%d vcs=%d steps=%d queries=%v solver=%.1fs wall=%.1fs exhaustive=%v ends=%v\n",
		res.Spec.Harness, res.Spec.Args, res.Paths, res.Forks, res.VCs, res.Steps, res.Queries, res.SolverS, res.WallS, res.Exhaustive, res.EndReasons)
	var keys []string
	for k := range res.Reached {
		keys = append(keys, k)
	}
	sort.Strings(keys)
	for _, k := range keys {
		fmt.Printf("  reach %s: %d\n", k, res.Reached[k])
	}
	for _, f := range res.Findings {
		fmt.Printf("  FINDING %s %s x%d: %s\n", f.Kind, f.ID, f.Count, f.Msg)
		for _, s := range f.Stack {
			fmt.Printf("      at %s\n", s)
		}
		if len(f.Nondet) > 0 {
			b, _ := json.Marshal(f.Nondet)
			s := string(b)
			if len(s) > 600 {
				s = s[:600] + "..."
			}
			fmt.Printf("      nondet %s\n", s)
		}
		if len(f.Observe) > 0 {
			fmt.Printf("      observe %v\n", f.Observe)
		}
		if len(f.Events) > 0 {
			fmt.Printf("      events %v\n", f.Events)
		}
	}
	for _, s := range res.Inconcl {
		fmt.Println("  ", s)
	}
	for _, s := range res.EngineErr {
		fmt.Println("  ENGINE:", s)
	}
}

func firstLines(s string, n int) string {
	l := strings.SplitN(s, "\n", n+1)
	if len(l) > n {
		l = l[:n]
	}
	return strings.Join(l, "\n")
}

var srcCache sync.Map

func (p *Program) sourceLine(file string, line int) string {
	v, ok := srcCache.Load(file)
	if !ok {
		b, err := os.ReadFile(file)
		var lines []string
		if err == nil {
			lines = strings.Split(string(b), "\n")
		}
		srcCache.Store(file, lines)
		v = lines
	}
	lines := v.([]string)
	if line-1 < len(lines) && line >= 1 {
		return strings.Join(strings.Fields(lines[line-1]), " ")
	}
	return fmt.Sprintf("%s:%d", filepath.Base(file), line)
}
