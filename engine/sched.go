package main

// Goroutines, channels, mutexes, scheduler decisions and happens-before race detection.

import (
	"fmt"
	"go/types"
	"sort"
	"strings"

	"golang.org/x/tools/go/ssa"
)

type VC []int32

func (v VC) clone() VC { return append(VC{}, v...) }
func (v *VC) join(o VC) {
	for len(*v) < len(o) {
		*v = append(*v, 0)
	}
	for i, c := range o {
		if c > (*v)[i] {
			(*v)[i] = c
		}
	}
}
func (v VC) at(i int) int32 {
	if i < len(v) {
		return v[i]
	}
	return 0
}

const (
	tsRunnable = iota
	tsParked
	tsDone
)

const (
	wNone = iota
	wSend
	wRecv
	wSelect
	wLock
	wQuiesce
	wForever
)

type selCase struct {
	ch   *ChanObj
	send bool
	val  Value
}

type waitInfo struct {
	kind  int
	ch    *ChanObj
	val   Value
	cases []selCase
	mu    muKey
}

type muKey struct {
	obj *Object
	off int
}

type mutexState struct {
	holder int // -1 free
	vc     VC
}

type Thread struct {
	id        int
	frames    []*Frame
	result    Value
	state     int
	wait      *waitInfo
	completed bool
	resume    Value
	skipSched bool
	vc        VC
	name      string
	spawned   int
	held      int
}

type cellShadow struct {
	wt    int32 // writer thread (-1 none)
	wc    int32
	wsite string
	reads VC
	rsite []string
	// last sync/atomic read-modify-write or store of the cell (at = thread+1, 0 none): an unordered plain access
	// of the same cell is a race, as it is for the Go race detector
	at    int32
	ac    int32
	asite string
}

func (in *Interp) newThread(name string) *Thread {
	th := &Thread{id: len(in.threads), name: name}
	th.vc = make(VC, th.id+1)
	th.vc[th.id] = 1
	in.threads = append(in.threads, th)
	return th
}

func (in *Interp) runnableOthers(th *Thread) []int {
	var r []int
	for _, t := range in.threads {
		if t != th && t.state == tsRunnable {
			r = append(r, t.id)
		}
	}
	return r
}

// visible is called at the start of a visible operation; true means the thread was preempted.
func (in *Interp) visible(th *Thread, free bool) bool {
	if th.skipSched {
		th.skipSched = false
		return false
	}
	if len(in.threads) == 1 || th.id < 0 {
		return false
	}
	others := in.runnableOthers(th)
	if len(others) == 0 {
		return false
	}
	if !free && in.preempts >= in.maxPreempt {
		return false
	}
	alts := append([]int{th.id}, others...)
	c := in.chooseFrom(alts, DSched)
	if c == th.id {
		return false
	}
	if !free {
		in.preempts++
	}
	th.skipSched = true
	in.switchTo(in.threads[c], "preempt")
	return true
}

func (in *Interp) switchTo(t *Thread, why string) {
	in.cur = t
	if len(in.schedLog) < 400 {
		in.schedLog = append(in.schedLog, fmt.Sprintf("%s->T%d(%s)", why, t.id, t.name))
	}
}

// pick chooses the next thread when the current one cannot continue. Returns false when the path is over.
func (in *Interp) pick() bool {
	var run []int
	for _, t := range in.threads {
		if t.state == tsRunnable {
			run = append(run, t.id)
		}
	}
	main := in.threads[0]
	if len(run) == 0 {
		if main.state == tsParked && main.wait != nil && main.wait.kind == wQuiesce {
			main.state = tsRunnable
			main.completed = true
			main.wait = nil
			in.switchTo(main, "quiescent")
			return true
		}
		if main.state == tsDone {
			return false
		}
		in.finding("HANG", "deadlock@"+in.threadWhere(main), "harness main thread blocked forever: "+in.describeThreads(), in.model)
		return false
	}
	// the default successor is the lowest-numbered runnable goroutine; choosing another one costs one unit of
	// the free-switch budget when such a budget is set (delay-bounded scheduling)
	if in.maxFree >= 0 && in.frees >= in.maxFree {
		run = run[:1]
	}
	c := in.chooseFrom(run, DSched)
	if c != run[0] {
		in.frees++
	}
	in.switchTo(in.threads[c], "sched")
	return true
}

func (in *Interp) threadWhere(t *Thread) string {
	if len(t.frames) == 0 {
		return "done"
	}
	saved := in.cur
	in.cur = t
	s := in.siteID()
	in.cur = saved
	return s
}

func (in *Interp) describeThreads() string {
	var parts []string
	saved := in.cur
	for _, t := range in.threads {
		st := [...]string{"runnable", "parked", "done"}[t.state]
		w := ""
		if len(t.frames) > 0 {
			in.cur = t
			w = in.where()
		}
		parts = append(parts, fmt.Sprintf("T%d(%s) %s %s", t.id, t.name, st, w))
	}
	in.cur = saved
	return strings.Join(parts, "; ")
}

func (in *Interp) park(th *Thread, w *waitInfo) {
	th.state = tsParked
	th.wait = w
}

func (in *Interp) complete(t *Thread, v Value) {
	t.state = tsRunnable
	t.completed = true
	t.resume = v
	t.wait = nil
	t.skipSched = true
}

// ---------- go ----------

func (in *Interp) doGo(th *Thread, f *Frame, x *ssa.Go) bool {
	fnv, meth, args := in.prepareCall(f, &x.Call)
	nt := in.newThread("")
	th.spawned++
	if in.raceOn || true {
		nt.vc = th.vc.clone()
		for len(nt.vc) <= nt.id {
			nt.vc = append(nt.vc, 0)
		}
		nt.vc[nt.id] = 1
		th.vc[th.id]++
	}
	// resolve target
	var fn *ssa.Function
	var bindings []Value
	if meth != nil {
		iv := fnv.(Iface)
		if iv.t == nil {
			in.goPanic("go on nil interface method")
		}
		fn = in.p.prog.LookupMethod(iv.t, meth.Pkg(), meth.Name())
		args = append([]Value{iv.v}, args...)
	} else {
		fv := fnv.(*FuncVal)
		if fv == nil || fv.fn == nil {
			in.goPanic("go of nil func")
		}
		fn = fv.fn
		bindings = fv.bindings
	}
	nt.name = fn.Name()
	name := in.fnName(fn)
	if stub, ok := in.p.stubFns[in.mangled(fn, name)]; ok {
		fn = stub
		bindings = nil
	}
	f.ip++
	saved := in.cur
	in.cur = nt
	in.pushFrame(nt, fn, args, bindings, -1)
	in.cur = saved
	// allow the new goroutine to run first
	th.skipSched = false
	if in.visible(th, false) {
		th.skipSched = false // the go statement itself is already done
		return false
	}
	return true
}

// ---------- channels ----------

func (in *Interp) findParked(ch *ChanObj, wantSend bool) (*Thread, int) {
	var cands []*Thread
	var idxs []int
	for _, t := range in.threads {
		if t.state != tsParked || t.wait == nil {
			continue
		}
		switch t.wait.kind {
		case wSend:
			if wantSend && t.wait.ch == ch {
				cands = append(cands, t)
				idxs = append(idxs, -1)
			}
		case wRecv:
			if !wantSend && t.wait.ch == ch {
				cands = append(cands, t)
				idxs = append(idxs, -1)
			}
		case wSelect:
			for i, c := range t.wait.cases {
				if c.ch == ch && c.send == wantSend {
					cands = append(cands, t)
					idxs = append(idxs, i)
					break
				}
			}
		}
	}
	if len(cands) == 0 {
		return nil, 0
	}
	k := 0
	if len(cands) > 1 {
		k = in.choose(len(cands), DChoice)
	}
	return cands[k], idxs[k]
}

func (in *Interp) selectResult(t *Thread, idx int, recvVal Value, ok bool) Value {
	// tuple (index, recvOk, r0..rn) for the parked select of t
	f := t.frames[len(t.frames)-1]
	sel := f.block.Instrs[f.ip].(*ssa.Select)
	return in.mkSelectResult(sel, idx, recvVal, ok)
}

func (in *Interp) mkSelectResult(sel *ssa.Select, idx int, recvVal Value, ok bool) Value {
	tu := Tuple{in.tc.Const(uint64(int64(idx)), 64), in.tc.Bool(ok)}
	for i, st := range sel.States {
		if st.Dir == types.RecvOnly {
			if i == idx && recvVal != nil {
				tu = append(tu, recvVal)
			} else {
				tu = append(tu, in.zeroValue(st.Chan.Type().Underlying().(*types.Chan).Elem()))
			}
		}
	}
	return tu
}

// deliverTo hands value v (sent by th) to parked receiver r.
func (in *Interp) deliverTo(th *Thread, r *Thread, caseIdx int, v Value, commaOk bool) {
	// HB: send -> receive, and (unbuffered) receive -> send completion
	r.vc.join(th.vc)
	th.vc.join(r.vc)
	th.vc[th.id]++
	r.vc[r.id]++
	if r.wait.kind == wSelect {
		in.complete(r, in.selectResult(r, caseIdx, v, true))
	} else {
		in.complete(r, Tuple{v, in.tc.True})
	}
}

// takeFrom takes the value of parked sender s (for receiver th).
func (in *Interp) takeFrom(th *Thread, s *Thread, caseIdx int) Value {
	var v Value
	if s.wait.kind == wSelect {
		v = s.wait.cases[caseIdx].val
	} else {
		v = s.wait.val
	}
	th.vc.join(s.vc)
	s.vc.join(th.vc)
	th.vc[th.id]++
	s.vc[s.id]++
	if s.wait.kind == wSelect {
		in.complete(s, in.selectResult(s, caseIdx, nil, false))
	} else {
		in.complete(s, nil)
	}
	return v
}

// trySend: returns true if the send completed.
func (in *Interp) trySend(th *Thread, ch *ChanObj, v Value) bool {
	if ch.closed {
		in.goPanic("send on closed channel")
	}
	if len(ch.buf) == 0 {
		if r, idx := in.findParked(ch, false); r != nil {
			in.deliverTo(th, r, idx, v, true)
			return true
		}
	}
	if len(ch.buf) < ch.cap {
		// buffered HB: k-th receive happens before (k+cap)-th send completes
		if ch.nsend >= ch.cap && ch.nsend-ch.cap < len(ch.recvClocks) {
			th.vc.join(ch.recvClocks[ch.nsend-ch.cap])
		}
		ch.nsend++
		ch.buf = append(ch.buf, chanMsg{v: v, vc: th.vc.clone()})
		th.vc[th.id]++
		return true
	}
	return false
}

// tryRecv: (value, ok, completed)
func (in *Interp) tryRecv(th *Thread, ch *ChanObj) (Value, bool, bool) {
	if len(ch.buf) > 0 {
		m := ch.buf[0]
		ch.buf = ch.buf[1:]
		th.vc.join(m.vc)
		ch.recvClocks = append(ch.recvClocks, th.vc.clone())
		th.vc[th.id]++
		// a parked sender can now move into the buffer
		if s, idx := in.findParked(ch, true); s != nil {
			var v Value
			if s.wait.kind == wSelect {
				v = s.wait.cases[idx].val
			} else {
				v = s.wait.val
			}
			s.vc.join(th.vc) // receive -> (k+cap)-th send
			ch.buf = append(ch.buf, chanMsg{v: v, vc: s.vc.clone()})
			ch.nsend++
			s.vc[s.id]++
			if s.wait.kind == wSelect {
				in.complete(s, in.selectResult(s, idx, nil, false))
			} else {
				in.complete(s, nil)
			}
		}
		return m.v, true, true
	}
	if s, idx := in.findParked(ch, true); s != nil {
		return in.takeFrom(th, s, idx), true, true
	}
	if ch.closed {
		th.vc.join(ch.closeClock)
		return in.zeroValue(ch.et), false, true
	}
	return nil, false, false
}

func (in *Interp) doSend(th *Thread, f *Frame, x *ssa.Send) bool {
	if th.completed {
		th.completed = false
		f.ip++
		return true
	}
	if in.visible(th, false) {
		return false
	}
	ch, _ := in.get(f, x.Chan).(*ChanObj)
	if ch == nil {
		in.park(th, &waitInfo{kind: wForever})
		return false
	}
	v := in.get(f, x.X)
	if in.trySend(th, ch, v) {
		f.ip++
		return true
	}
	in.park(th, &waitInfo{kind: wSend, ch: ch, val: v})
	return false
}

func (in *Interp) doRecv(th *Thread, f *Frame, x *ssa.UnOp) bool {
	finish := func(v Value, ok bool) {
		if x.CommaOk {
			in.set(f, x, Tuple{v, in.tc.Bool(ok)})
		} else {
			in.set(f, x, v)
		}
		f.ip++
	}
	if th.completed {
		th.completed = false
		tu := th.resume.(Tuple)
		finish(tu[0], tu[1].(*Term).k != 0)
		return true
	}
	if in.visible(th, false) {
		return false
	}
	ch, _ := in.get(f, x.X).(*ChanObj)
	if ch == nil {
		in.park(th, &waitInfo{kind: wForever})
		return false
	}
	if v, ok, done := in.tryRecv(th, ch); done {
		finish(v, ok)
		return true
	}
	in.park(th, &waitInfo{kind: wRecv, ch: ch})
	return false
}

func (in *Interp) chanClose(ch *ChanObj) {
	if ch == nil {
		in.goPanic("close of nil channel")
	}
	if ch.closed {
		in.goPanic("close of closed channel")
	}
	th := in.cur
	ch.closed = true
	ch.closeClock = th.vc.clone()
	th.vc[th.id]++
	// wake all parked receivers
	for _, t := range in.threads {
		if t.state != tsParked || t.wait == nil {
			continue
		}
		switch t.wait.kind {
		case wRecv:
			if t.wait.ch == ch {
				t.vc.join(ch.closeClock)
				in.complete(t, Tuple{in.zeroValue(ch.et), in.tc.False})
			}
		case wSelect:
			for i, c := range t.wait.cases {
				if c.ch == ch && !c.send {
					t.vc.join(ch.closeClock)
					in.complete(t, in.selectResult(t, i, in.zeroValue(ch.et), false))
					break
				}
			}
		case wSend:
			if t.wait.ch == ch {
				in.goPanic("send on closed channel (parked sender)")
			}
		}
	}
}

func (in *Interp) doSelect(th *Thread, f *Frame, x *ssa.Select) bool {
	if th.completed {
		th.completed = false
		in.set(f, x, th.resume)
		f.ip++
		return true
	}
	if in.visible(th, false) {
		return false
	}
	cases := make([]selCase, len(x.States))
	var ready []int
	for i, st := range x.States {
		ch, _ := in.get(f, st.Chan).(*ChanObj)
		c := selCase{ch: ch, send: st.Dir == types.SendOnly}
		if c.send {
			c.val = in.get(f, st.Send)
		}
		cases[i] = c
		if ch == nil {
			continue
		}
		if c.send {
			if ch.closed || len(ch.buf) < ch.cap || in.hasParked(ch, false) {
				ready = append(ready, i)
			}
		} else {
			if len(ch.buf) > 0 || ch.closed || in.hasParked(ch, true) {
				ready = append(ready, i)
			}
		}
	}
	if len(ready) == 0 {
		if !x.Blocking {
			in.set(f, x, in.mkSelectResult(x, -1, nil, false))
			f.ip++
			return true
		}
		in.park(th, &waitInfo{kind: wSelect, cases: cases})
		return false
	}
	k := ready[0]
	if len(ready) > 1 {
		k = ready[in.choose(len(ready), DChoice)]
	}
	c := cases[k]
	if c.send {
		if !in.trySend(th, c.ch, c.val) {
			panic(engineErr("select: ready send did not complete"))
		}
		in.set(f, x, in.mkSelectResult(x, k, nil, false))
	} else {
		v, ok, done := in.tryRecv(th, c.ch)
		if !done {
			panic(engineErr("select: ready recv did not complete"))
		}
		in.set(f, x, in.mkSelectResult(x, k, v, ok))
	}
	f.ip++
	return true
}

func (in *Interp) hasParked(ch *ChanObj, wantSend bool) bool {
	for _, t := range in.threads {
		if t.state != tsParked || t.wait == nil {
			continue
		}
		switch t.wait.kind {
		case wSend:
			if wantSend && t.wait.ch == ch {
				return true
			}
		case wRecv:
			if !wantSend && t.wait.ch == ch {
				return true
			}
		case wSelect:
			for _, c := range t.wait.cases {
				if c.ch == ch && c.send == wantSend {
					return true
				}
			}
		}
	}
	return false
}

// ---------- mutexes and atomics ----------

func (in *Interp) mutex(p Ptr) *mutexState {
	m := in.mutexes[p.obj]
	if m == nil {
		m = map[int]*mutexState{}
		in.mutexes[p.obj] = m
	}
	s := m[p.off]
	if s == nil {
		s = &mutexState{holder: -1}
		m[p.off] = s
	}
	return s
}

func registerSyncNatives() {
	lock := func(in *Interp, cc *callCtx, args []Value) (Value, nativeStatus) {
		th := cc.th
		p := args[0].(Ptr)
		in.nilCheck(p, "Mutex.Lock")
		if th.completed {
			th.completed = false
		} else if in.visible(th, false) {
			return nil, nBlocked
		}
		m := in.mutex(p)
		if m.holder >= 0 {
			if m.holder == th.id {
				in.finding("HANG", "self-deadlock@"+in.siteID(), "recursive Lock of a held mutex at "+in.where(), in.model)
				in.endPath("deadlock")
			}
			in.park(th, &waitInfo{kind: wLock, mu: muKey{p.obj, p.off}})
			return nil, nBlocked
		}
		m.holder = th.id
		th.held++
		th.vc.join(m.vc)
		return nil, nDone
	}
	unlock := func(in *Interp, cc *callCtx, args []Value) (Value, nativeStatus) {
		th := cc.th
		p := args[0].(Ptr)
		in.nilCheck(p, "Mutex.Unlock")
		m := in.mutex(p)
		if m.holder < 0 {
			in.goPanic("sync: unlock of unlocked mutex")
		}
		if m.holder == th.id {
			th.held--
		} else if m.holder < len(in.threads) {
			in.threads[m.holder].held--
		}
		m.holder = -1
		m.vc = th.vc.clone()
		if th.id >= 0 {
			th.vc[th.id]++
		}
		for _, t := range in.threads {
			if t.state == tsParked && t.wait != nil && t.wait.kind == wLock && t.wait.mu.obj == p.obj && t.wait.mu.off == p.off {
				t.state = tsRunnable
				t.wait = nil
				t.skipSched = true
			}
		}
		return nil, nDone
	}
	natives["(*sync.Mutex).Lock"] = lock
	natives["(*sync.Mutex).Unlock"] = unlock
	natives["(*sync.RWMutex).Lock"] = lock
	natives["(*sync.RWMutex).Unlock"] = unlock
	natives["(*sync.RWMutex).RLock"] = lock
	natives["(*sync.RWMutex).RUnlock"] = unlock

	atomicOp := func(w int, f func(in *Interp, old *Term, args []Value) (newv *Term, ret Value)) nativeFn {
		return func(in *Interp, cc *callCtx, args []Value) (Value, nativeStatus) {
			p := args[0].(Ptr)
			in.nilCheck(p, "atomic op")
			m := in.mutex(Ptr{obj: p.obj, off: p.off})
			// acquire + release on the location's clock
			cc.th.vc.join(m.vc)
			old := in.term(p.obj.get(p.off))
			nv, ret := f(in, old, args)
			in.raceAtomic(p.obj, p.off, nv != nil)
			if nv != nil {
				p.obj.set(p.off, nv)
			}
			m.vc = cc.th.vc.clone()
			if cc.th.id >= 0 {
				cc.th.vc[cc.th.id]++
			}
			return ret, nDone
		}
	}
	for _, ty := range []string{"Uint32", "Int32", "Uint64", "Int64", "Uintptr"} {
		natives["sync/atomic.Load"+ty] = atomicOp(0, func(in *Interp, old *Term, args []Value) (*Term, Value) { return nil, old })
		natives["sync/atomic.Store"+ty] = atomicOp(0, func(in *Interp, old *Term, args []Value) (*Term, Value) { return in.term(args[1]), nil })
		natives["sync/atomic.Add"+ty] = atomicOp(0, func(in *Interp, old *Term, args []Value) (*Term, Value) {
			n := in.tc.Bin(OpAdd, old, in.term(args[1]))
			return n, n
		})
		natives["sync/atomic.Swap"+ty] = atomicOp(0, func(in *Interp, old *Term, args []Value) (*Term, Value) { return in.term(args[1]), old })
		natives["sync/atomic.CompareAndSwap"+ty] = atomicOp(0, func(in *Interp, old *Term, args []Value) (*Term, Value) {
			eq := in.branch(in.tc.Eq(old, in.term(args[1])))
			if eq {
				return in.term(args[2]), in.tc.True
			}
			return nil, in.tc.False
		})
	}
}

// ---------- race detection ----------

func (in *Interp) accessSite() (string, bool) {
	th := in.cur
	if th == nil || th.id < 0 || len(th.frames) == 0 {
		return "", false
	}
	top := th.frames[len(th.frames)-1]
	if isHarnessFnCached(in, top.fn) && !in.forceLibSite {
		return "", false
	}
	// attribute to the innermost go9p (non-harness) frame
	for i := len(th.frames) - 1; i >= 0; i-- {
		f := th.frames[i]
		if f.fn.Pkg == in.p.pkg {
			if isHarnessFnCached(in, f.fn) {
				if in.forceLibSite {
					continue
				}
				return "", false
			}
			return in.frameWhere(f), true
		}
	}
	return "", false
}

func isHarnessFnCached(in *Interp, fn *ssa.Function) bool {
	if v, ok := in.harnessFn[fn]; ok {
		return v
	}
	v := isHarnessFn(in.p, fn)
	in.harnessFn[fn] = v
	return v
}

// raceAccessAs: an access performed by harness code on behalf of the innermost library frame.
func (in *Interp) raceAccessAs(o *Object, off, n int, write bool) {
	in.forceLibSite = true
	in.raceAccess(o, off, n, write)
	in.forceLibSite = false
}

func (in *Interp) raceAccess(o *Object, off, n int, write bool) {
	if len(in.threads) < 2 || o.harness || o.lazy != nil {
		return
	}
	th := in.cur
	if th == nil || th.id < 0 {
		return
	}
	var site string
	siteDone := false
	getSite := func() (string, bool) {
		if !siteDone {
			var ok bool
			site, ok = in.accessSite()
			siteDone = true
			if !ok {
				site = ""
			}
		}
		return site, site != ""
	}
	if _, ok := getSite(); !ok {
		return
	}
	if o.shadow == nil {
		o.shadow = make([]cellShadow, len(o.cells))
		for i := range o.shadow {
			o.shadow[i].wt = -1
		}
	}
	for i := off; i < off+n && i < len(o.shadow); i++ {
		sh := &o.shadow[i]
		if sh.wt >= 0 && int(sh.wt) != th.id && sh.wc > th.vc.at(int(sh.wt)) {
			in.reportRace(o, i, sh.wsite, site, "write", map[bool]string{true: "write", false: "read"}[write])
		}
		if sh.at > 0 && int(sh.at-1) != th.id && sh.ac > th.vc.at(int(sh.at-1)) {
			in.reportRace(o, i, sh.asite, site, "atomic write", map[bool]string{true: "write", false: "read"}[write])
		}
		if write {
			for t, c := range sh.reads {
				if t != th.id && c > th.vc.at(t) {
					in.reportRace(o, i, sh.rsite[t], site, "read", "write")
				}
			}
			sh.wt = int32(th.id)
			sh.wc = th.vc[th.id]
			sh.wsite = site
			sh.reads = nil
			sh.rsite = nil
		} else {
			for len(sh.reads) <= th.id {
				sh.reads = append(sh.reads, 0)
				sh.rsite = append(sh.rsite, "")
			}
			sh.reads[th.id] = th.vc[th.id]
			sh.rsite[th.id] = site
		}
	}
}

// raceAtomic: an atomic access conflicts with plain accesses of the same cell that are not ordered before it.
func (in *Interp) raceAtomic(o *Object, off int, write bool) {
	if len(in.threads) < 2 || o.harness || o.lazy != nil {
		return
	}
	th := in.cur
	if th == nil || th.id < 0 {
		return
	}
	site, ok := in.accessSite()
	if !ok {
		return
	}
	if o.shadow == nil {
		o.shadow = make([]cellShadow, len(o.cells))
		for i := range o.shadow {
			o.shadow[i].wt = -1
		}
	}
	if off >= len(o.shadow) {
		return
	}
	sh := &o.shadow[off]
	if sh.wt >= 0 && int(sh.wt) != th.id && sh.wc > th.vc.at(int(sh.wt)) {
		in.reportRace(o, off, sh.wsite, site, "write", "atomic access")
	}
	if write {
		for t, c := range sh.reads {
			if t != th.id && c > th.vc.at(t) {
				in.reportRace(o, off, sh.rsite[t], site, "read", "atomic write")
			}
		}
		sh.at = int32(th.id) + 1
		sh.ac = th.vc[th.id]
		sh.asite = site
	}
}

func (in *Interp) raceMap(m *MapObj, write bool) {
	if len(in.threads) < 2 {
		return
	}
	th := in.cur
	if th == nil || th.id < 0 {
		return
	}
	site, ok := in.accessSite()
	if !ok {
		return
	}
	sh := &m.shadow
	if !m.shadowInit {
		sh.wt = -1
		m.shadowInit = true
	}
	if sh.wt >= 0 && int(sh.wt) != th.id && sh.wc > th.vc.at(int(sh.wt)) {
		in.reportRace(nil, m.id, sh.wsite, site, "map write", map[bool]string{true: "map write", false: "map read"}[write])
	}
	if write {
		for t, c := range sh.reads {
			if t != th.id && c > th.vc.at(t) {
				in.reportRace(nil, m.id, sh.rsite[t], site, "map read", "map write")
			}
		}
		sh.wt = int32(th.id)
		sh.wc = th.vc[th.id]
		sh.wsite = site
		sh.reads = nil
		sh.rsite = nil
	} else {
		for len(sh.reads) <= th.id {
			sh.reads = append(sh.reads, 0)
			sh.rsite = append(sh.rsite, "")
		}
		sh.reads[th.id] = th.vc[th.id]
		sh.rsite[th.id] = site
	}
}

func (in *Interp) reportRace(o *Object, cell int, site1, site2, k1, k2 string) {
	a, b := stripLine(site1), stripLine(site2)
	pair := []string{a, b}
	sort.Strings(pair)
	id := pair[0] + " <-> " + pair[1]
	name := ""
	if o != nil {
		name = fmt.Sprintf("object o%d(%s) cell %d", o.id, o.name, cell)
	} else {
		name = fmt.Sprintf("map#%d", cell)
	}
	in.finding("RACE", id, fmt.Sprintf("data race on %s: %s at %s vs %s at %s", name, k1, site1, k2, site2), in.model)
}

func stripLine(s string) string { return s }
