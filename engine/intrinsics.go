package main

import (
	"fmt"
)

const harnessPkg = "github.com/rminnich/go9p."

func (in *Interp) freshName(name string) string {
	n := in.varSeq[name]
	in.varSeq[name] = n + 1
	return fmt.Sprintf("%s#%d", name, n)
}

func (in *Interp) strArg(v Value) string {
	s := v.(Str)
	if !s.IsConcrete() {
		panic(engineErr("intrinsic name must be a concrete string"))
	}
	return s.Concrete()
}

func (in *Interp) intArg(v Value) int {
	t := in.term(v)
	if !t.IsConst() {
		return int(in.concretize(t, "intrinsic int arg"))
	}
	return int(int64(t.k))
}

func registerIntrinsics() {
	scalar := func(w int, kind string) nativeFn {
		return func(in *Interp, cc *callCtx, args []Value) (Value, nativeStatus) {
			n := in.freshName(in.strArg(args[0]))
			t := in.tc.Var(n, w)
			in.nondet = append(in.nondet, ndRec{name: n, kind: kind, term: t})
			return t, nDone
		}
	}
	reg := func(name string, f nativeFn) { natives[harnessPkg+name] = f }
	reg("vxU8", scalar(8, "u8"))
	reg("vxU16", scalar(16, "u16"))
	reg("vxU32", scalar(32, "u32"))
	reg("vxU64", scalar(64, "u64"))
	reg("vxInt", scalar(64, "int"))
	reg("vxBool", scalar(0, "bool"))
	reg("vxBytes", func(in *Interp, cc *callCtx, args []Value) (Value, nativeStatus) {
		base := in.freshName(in.strArg(args[0]))
		n := in.intArg(args[1])
		o := in.newObject(n, base)
		o.harness = false
		cells := make([]*Term, n)
		for i := 0; i < n; i++ {
			cells[i] = in.tc.Var(fmt.Sprintf("%s[%d]", base, i), 8)
			o.cells[i] = cells[i]
		}
		in.nondet = append(in.nondet, ndRec{name: base, kind: "bytes", bytes: cells})
		l := in.tc.Const(uint64(n), 64)
		return Slice{obj: o, len: l, cap: l}, nDone
	})
	reg("vxString", func(in *Interp, cc *callCtx, args []Value) (Value, nativeStatus) {
		base := in.freshName(in.strArg(args[0]))
		n := in.intArg(args[1])
		cells := make([]*Term, n)
		for i := 0; i < n; i++ {
			cells[i] = in.tc.Var(fmt.Sprintf("%s[%d]", base, i), 8)
		}
		in.nondet = append(in.nondet, ndRec{name: base, kind: "string", bytes: cells})
		if n == 0 {
			return Str{}, nDone
		}
		return Str{sym: cells}, nDone
	})
	reg("vxChoose", func(in *Interp, cc *callCtx, args []Value) (Value, nativeStatus) {
		name := in.freshName(in.strArg(args[0]))
		n := in.intArg(args[1])
		c := in.choose(n, DChoice)
		in.nondet = append(in.nondet, ndRec{name: name, kind: "choose", conc: uint64(c)})
		return in.tc.Const(uint64(c), 64), nDone
	})
	reg("vxAssume", func(in *Interp, cc *callCtx, args []Value) (Value, nativeStatus) {
		in.assume(in.term(args[0]))
		return nil, nDone
	})
	reg("vxAssert", func(in *Interp, cc *callCtx, args []Value) (Value, nativeStatus) {
		id := in.strArg(args[1])
		in.ex.mu.Lock()
		in.ex.reached["assert:"+id]++
		in.ex.mu.Unlock()
		in.vcLazy(in.tc.Not(in.term(args[0])), "ASSERT", func() (string, string) { return id, "assertion " + id + " violated at " + in.callerWhere() })
		return nil, nDone
	})
	reg("vxAssertE", func(in *Interp, cc *callCtx, args []Value) (Value, nativeStatus) {
		id := in.strArg(args[1])
		in.ex.mu.Lock()
		in.ex.reached["assert:"+id]++
		in.ex.mu.Unlock()
		in.engineOnly = true
		in.vcLazy(in.tc.Not(in.term(args[0])), "ASSERT", func() (string, string) { return id, "assertion " + id + " (engine-observable fact) violated at " + in.callerWhere() })
		in.engineOnly = false
		return nil, nDone
	})
	reg("vxReach", func(in *Interp, cc *callCtx, args []Value) (Value, nativeStatus) {
		id := in.strArg(args[0])
		in.ex.mu.Lock()
		in.ex.reached[id]++
		in.ex.mu.Unlock()
		return nil, nDone
	})
	reg("vxObserve", func(in *Interp, cc *callCtx, args []Value) (Value, nativeStatus) {
		name := in.strArg(args[0])
		iv := args[1].(Iface)
		in.observed = append(in.observed, obsRec{name: name, v: iv.v})
		return nil, nDone
	})
	reg("vxEvent", func(in *Interp, cc *callCtx, args []Value) (Value, nativeStatus) {
		s := args[0].(Str)
		if len(in.events) < 200 {
			if s.IsConcrete() {
				in.events = append(in.events, s.Concrete())
			} else {
				in.events = append(in.events, "<symbolic>")
			}
		}
		return nil, nDone
	})
	reg("vxHeldLocks", func(in *Interp, cc *callCtx, args []Value) (Value, nativeStatus) {
		return in.tc.Const(uint64(cc.th.held), 64), nDone
	})
	reg("vxSpawned", func(in *Interp, cc *callCtx, args []Value) (Value, nativeStatus) {
		return in.tc.Const(uint64(cc.th.spawned), 64), nDone
	})
	reg("vxGoroutines", func(in *Interp, cc *callCtx, args []Value) (Value, nativeStatus) {
		return in.tc.Const(uint64(len(in.threads)), 64), nDone
	})
	reg("vxAllocBytes", func(in *Interp, cc *callCtx, args []Value) (Value, nativeStatus) {
		if in.allocBytes == nil {
			return in.tc.Const(0, 64), nDone
		}
		return in.allocBytes, nDone
	})
	reg("vxAllocReset", func(in *Interp, cc *callCtx, args []Value) (Value, nativeStatus) {
		in.allocBytes = nil
		return nil, nDone
	})
	reg("vxQuiesce", func(in *Interp, cc *callCtx, args []Value) (Value, nativeStatus) {
		th := cc.th
		if th.completed {
			th.completed = false
			return nil, nDone
		}
		if len(in.runnableOthers(th)) == 0 {
			return nil, nDone
		}
		in.park(th, &waitInfo{kind: wQuiesce})
		return nil, nBlocked
	})
	reg("vxYield", func(in *Interp, cc *callCtx, args []Value) (Value, nativeStatus) {
		if in.visible(cc.th, true) {
			return nil, nBlocked
		}
		return nil, nDone
	})
	// number of goroutines (other than the caller) parked with library (non-harness) code on top of their stack
	reg("vxParkedInLib", func(in *Interp, cc *callCtx, args []Value) (Value, nativeStatus) {
		n := 0
		for _, t := range in.threads {
			if t == cc.th || t.state != tsParked || len(t.frames) == 0 {
				continue
			}
			if !isHarnessFnCached(in, t.frames[len(t.frames)-1].fn) {
				n++
			}
		}
		return in.tc.Const(uint64(n), 64), nDone
	})
	reg("vxParkedDesc", func(in *Interp, cc *callCtx, args []Value) (Value, nativeStatus) {
		return Str{s: in.describeThreads()}, nDone
	})
	// vxWithin(inner, outer): inner is a sub-slice of outer's backing array range [0:len(outer)]
	reg("vxWithin", func(in *Interp, cc *callCtx, args []Value) (Value, nativeStatus) {
		a, b := args[0].(Slice), args[1].(Slice)
		if a.obj == nil {
			return in.tc.Bool(true), nDone
		}
		if a.obj != b.obj {
			return in.tc.False, nDone
		}
		tc := in.tc
		lo := tc.Const(uint64(a.off-b.off), 64)
		ok := tc.Bool(a.off >= b.off)
		ok = tc.And(ok, tc.Bin(OpUle, tc.Bin(OpAdd, lo, a.len), b.len))
		return ok, nDone
	})
	reg("vxSameArray", func(in *Interp, cc *callCtx, args []Value) (Value, nativeStatus) {
		a, b := args[0].(Slice), args[1].(Slice)
		return in.tc.Bool(a.obj == b.obj && a.obj != nil), nDone
	})
	reg("vxSetPreempt", func(in *Interp, cc *callCtx, args []Value) (Value, nativeStatus) {
		in.maxPreempt = in.intArg(args[0])
		return nil, nDone
	})
	reg("vxRaceOn", func(in *Interp, cc *callCtx, args []Value) (Value, nativeStatus) {
		in.raceOn = in.term(args[0]).k != 0
		return nil, nDone
	})
	reg("vxAll", func(in *Interp, cc *callCtx, args []Value) (Value, nativeStatus) {
		s := args[0].(Slice)
		r := in.tc.True
		if s.obj != nil {
			for i := 0; i < int(s.len.k); i++ {
				r = in.tc.And(r, in.term(s.obj.get(s.off+i)))
			}
		}
		return r, nDone
	})
	reg("vxAny", func(in *Interp, cc *callCtx, args []Value) (Value, nativeStatus) {
		s := args[0].(Slice)
		r := in.tc.False
		if s.obj != nil {
			for i := 0; i < int(s.len.k); i++ {
				r = in.tc.Or(r, in.term(s.obj.get(s.off+i)))
			}
		}
		return r, nDone
	})
	// vxLibRead/vxLibWrite(buf): the transport stub reads / fills the library's buffer; for the race detector these
	// are accesses made by the library frame that called the stub
	libAccess := func(write bool) nativeFn {
		return func(in *Interp, cc *callCtx, args []Value) (Value, nativeStatus) {
			s := args[0].(Slice)
			if in.raceOn && s.obj != nil && s.len.IsConst() && s.len.k > 0 {
				in.raceAccessAs(s.obj, s.off, int(s.len.k), write)
			}
			return nil, nDone
		}
	}
	reg("vxLibRead", libAccess(false))
	reg("vxLibWrite", libAccess(true))
	reg("vxJitter", func(in *Interp, cc *callCtx, args []Value) (Value, nativeStatus) { return nil, nDone })
	reg("vxLock", func(in *Interp, cc *callCtx, args []Value) (Value, nativeStatus) { return nil, nDone })
	reg("vxUnlock", func(in *Interp, cc *callCtx, args []Value) (Value, nativeStatus) { return nil, nDone })
	reg("vxSymbolic", func(in *Interp, cc *callCtx, args []Value) (Value, nativeStatus) {
		return in.tc.True, nDone
	})
}

func (in *Interp) callerWhere() string {
	return in.where()
}
