package main

import (
	"fmt"
	"go/types"
	"strings"

	"golang.org/x/tools/go/ssa"
)

type callCtx struct {
	th      *Thread
	f       *Frame
	retReg  int
	common  *ssa.CallCommon
	advance bool
}

type nativeStatus int

const (
	nDone nativeStatus = iota
	nBlocked
	nPushed // native pushed a frame; result arrives through the frame's retReg
)

type nativeFn func(in *Interp, cc *callCtx, args []Value) (Value, nativeStatus)

func (in *Interp) prepareCall(f *Frame, c *ssa.CallCommon) (Value, *types.Func, []Value) {
	args := make([]Value, 0, len(c.Args)+1)
	fnv := in.get(f, c.Value)
	if c.IsInvoke() {
		for _, a := range c.Args {
			args = append(args, in.get(f, a))
		}
		return fnv, c.Method, args
	}
	for _, a := range c.Args {
		args = append(args, in.get(f, a))
	}
	return fnv, nil, args
}

// callValue performs a call from frame f. Returns false if the thread blocked.
func (in *Interp) callValue(th *Thread, f *Frame, fnv Value, meth *types.Func, args []Value, retReg int, site ssa.Instruction) bool {
	var common *ssa.CallCommon
	advance := false
	switch s := site.(type) {
	case *ssa.Call:
		common = &s.Call
		advance = true
	case *ssa.Defer:
		common = &s.Call
	case *ssa.Go:
		common = &s.Call
	}
	cc := &callCtx{th: th, f: f, retReg: retReg, common: common, advance: advance}
	var fn *ssa.Function
	var bindings []Value
	if meth != nil {
		iv := fnv.(Iface)
		if iv.t == nil {
			in.finding("PANIC", "nil-deref@"+in.siteID(), "method call on nil interface ("+meth.Name()+") at "+in.where(), in.model)
			in.endPath("panic")
		}
		fn = in.p.prog.LookupMethod(iv.t, meth.Pkg(), meth.Name())
		if fn == nil {
			panic(engineErr("no method " + meth.Name() + " on " + iv.t.String()))
		}
		args = append([]Value{iv.v}, args...)
	} else {
		fv, _ := fnv.(*FuncVal)
		if fv == nil {
			in.finding("PANIC", "nil-deref@"+in.siteID(), "call of nil function at "+in.where(), in.model)
			in.endPath("panic")
		}
		if fv.builtin != nil {
			ret := in.callBuiltin(cc, fv.builtin, args)
			if advance {
				f.ip++
			}
			if retReg >= 0 {
				f.regs[retReg] = ret
			}
			return true
		}
		fn = fv.fn
		bindings = fv.bindings
	}
	return in.callFunction(cc, fn, args, bindings)
}

func (in *Interp) mangled(fn *ssa.Function, name string) string {
	if m, ok := in.mangledNames[fn]; ok {
		return m
	}
	m := mangle(name)
	in.mangledNames[fn] = m
	return m
}

func (in *Interp) fnName(fn *ssa.Function) string {
	fi := in.info(fn)
	_ = fi
	if n, ok := in.names[fn]; ok {
		return n
	}
	n := fn.String()
	in.names[fn] = n
	return n
}

func (in *Interp) callFunction(cc *callCtx, fn *ssa.Function, args []Value, bindings []Value) bool {
	name := in.fnName(fn)
	f := cc.f
	if nat, ok := natives[name]; ok {
		ret, st := nat(in, cc, args)
		switch st {
		case nBlocked:
			return false
		case nPushed:
			return true
		}
		if cc.advance {
			f.ip++
		}
		if cc.retReg >= 0 {
			f.regs[cc.retReg] = ret
		}
		return true
	}
	if fn.Synthetic == "package initializer" {
		// imported packages are initialised lazily, when one of their globals is first touched (globalObj)
		if cc.advance {
			f.ip++
		}
		return true
	}
	if stub, ok := in.p.stubFns[in.mangled(fn, name)]; ok {
		in.usedStubs[name] = true
		fn = stub
		bindings = nil
	}
	if len(fn.Blocks) == 0 {
		panic(engineErr("call of external function " + name + " at " + in.where()))
	}
	if cc.advance {
		f.ip++
	}
	in.pushFrame(cc.th, fn, args, bindings, cc.retReg)
	return true
}

func (in *Interp) sliceElem(cc *callCtx, argIdx int) types.Type {
	t := cc.common.Args[argIdx].Type().Underlying()
	if s, ok := t.(*types.Slice); ok {
		return s.Elem()
	}
	panic(engineErr("slice elem of " + t.String()))
}

func (in *Interp) callBuiltin(cc *callCtx, b *ssa.Builtin, args []Value) Value {
	tc := in.tc
	switch b.Name() {
	case "len":
		switch x := args[0].(type) {
		case Str:
			return tc.Const(uint64(x.Len()), 64)
		case Slice:
			return x.len
		case *MapObj:
			if x == nil {
				return tc.Const(0, 64)
			}
			if in.raceOn {
				in.raceMap(x, false)
			}
			return tc.Const(uint64(len(x.keys)), 64)
		case *ChanObj:
			if x == nil {
				return tc.Const(0, 64)
			}
			return tc.Const(uint64(len(x.buf)), 64)
		case Agg:
			at := cc.common.Args[0].Type().Underlying().(*types.Array)
			return tc.Const(uint64(at.Len()), 64)
		}
	case "cap":
		switch x := args[0].(type) {
		case Slice:
			return x.cap
		case *ChanObj:
			if x == nil {
				return tc.Const(0, 64)
			}
			return tc.Const(uint64(x.cap), 64)
		}
	case "append":
		return in.builtinAppend(cc, args)
	case "copy":
		return in.builtinCopy(cc, args)
	case "delete":
		m, _ := args[0].(*MapObj)
		in.mapDelete(m, args[1])
		return nil
	case "print", "println":
		return nil
	case "recover":
		return Iface{}
	case "close":
		in.chanClose(args[0].(*ChanObj))
		return nil
	case "min", "max":
		t0 := cc.common.Args[0].Type()
		_, signed, _ := isIntType(t0)
		r := in.term(args[0])
		for _, a := range args[1:] {
			y := in.term(a)
			var lt *Term
			if signed {
				lt = tc.Bin(OpSlt, y, r)
			} else {
				lt = tc.Bin(OpUlt, y, r)
			}
			if b.Name() == "max" {
				lt = tc.Not(tc.Or(lt, tc.Eq(y, r)))
				// y > r
			}
			r = tc.Ite(lt, y, r)
		}
		return r
	case "ssa:wrapnilchk":
		p := args[0].(Ptr)
		in.nilCheck(p, "method value on nil pointer")
		return p
	case "SliceData":
		s := args[0].(Slice)
		return Ptr{obj: s.obj, off: s.off}
	case "StringData":
		s := args[0].(Str)
		cells := s.Cells(tc)
		o := in.newObject(len(cells), "stringdata")
		for i, c := range cells {
			o.cells[i] = c
		}
		return Ptr{obj: o}
	case "String":
		p := args[0].(Ptr)
		n := int(in.concretize(in.to64(in.term(args[1]), cc.common.Args[1].Type()), "unsafe.String len"))
		cells := make([]*Term, n)
		for i := 0; i < n; i++ {
			cells[i] = in.term(p.obj.get(p.off + i))
		}
		return mkStr(cells)
	case "Slice":
		p := args[0].(Ptr)
		n := in.to64(in.term(args[1]), cc.common.Args[1].Type())
		return Slice{obj: p.obj, off: p.off, len: n, cap: n}
	}
	panic(engineErr("builtin " + b.Name() + " at " + in.where()))
}

func (in *Interp) builtinAppend(cc *callCtx, args []Value) Value {
	tc := in.tc
	s := args[0].(Slice)
	elem := in.sliceElem(cc, 0)
	esz := in.lay.of(elem).n
	var addCells []Value
	n2 := 0
	switch t := args[1].(type) {
	case Slice:
		n2 = int(in.concretize(t.len, "append src len"))
		if in.raceOn && n2 > 0 {
			in.raceAccess(t.obj, t.off, n2*esz, false)
		}
		for i := 0; i < n2*esz; i++ {
			addCells = append(addCells, t.obj.get(t.off+i))
		}
	case Str:
		for _, c := range t.Cells(tc) {
			addCells = append(addCells, c)
		}
		n2 = t.Len()
	}
	if n2 == 0 {
		return s
	}
	n1 := int(in.concretize(s.len, "append dst len"))
	var cp int
	if s.obj != nil && s.obj.lazy != nil {
		cp = n1 // force reallocation away from lazy objects
	} else {
		cp = int(in.concretize(s.cap, "append dst cap"))
	}
	if s.obj != nil && n1+n2 <= cp {
		if in.raceOn {
			in.raceAccess(s.obj, s.off+n1*esz, n2*esz, true)
		}
		for i, c := range addCells {
			s.obj.set(s.off+n1*esz+i, c)
		}
		return Slice{obj: s.obj, off: s.off, len: tc.Const(uint64(n1+n2), 64), cap: s.cap}
	}
	newcap := 2 * cp
	if newcap < n1+n2 {
		newcap = n1 + n2
	}
	if newcap < 4 {
		newcap = 4
	}
	o := in.newObject(newcap*esz, "append")
	zc := in.zeroCells(elem, nil)
	for i := 0; i < newcap; i++ {
		copy(o.cells[i*esz:], zc)
	}
	if n1 > 0 && in.raceOn {
		in.raceAccess(s.obj, s.off, n1*esz, false)
	}
	for i := 0; i < n1*esz; i++ {
		o.cells[i] = s.obj.get(s.off + i)
	}
	copy(o.cells[n1*esz:], addCells)
	in.noteAlloc(tc.Const(uint64(newcap*in.sizeofApprox(elem)), 64))
	return Slice{obj: o, len: tc.Const(uint64(n1+n2), 64), cap: tc.Const(uint64(newcap), 64)}
}

func (in *Interp) builtinCopy(cc *callCtx, args []Value) Value {
	tc := in.tc
	dst := args[0].(Slice)
	elem := in.sliceElem(cc, 0)
	esz := in.lay.of(elem).n
	var srcLen *Term
	var srcGet func(i int) Value
	switch s := args[1].(type) {
	case Slice:
		srcLen = s.len
		srcGet = func(i int) Value { return s.obj.get(s.off + i) }
		defer func() {
		}()
	case Str:
		cells := s.Cells(tc)
		srcLen = tc.Const(uint64(len(cells)), 64)
		srcGet = func(i int) Value { return cells[i] }
	}
	nt := tc.Ite(tc.Bin(OpUlt, dst.len, srcLen), dst.len, srcLen)
	n := int(in.concretize(nt, "copy length"))
	if n == 0 {
		return tc.Const(0, 64)
	}
	if in.raceOn {
		if s, ok := args[1].(Slice); ok {
			in.raceAccess(s.obj, s.off, n*esz, false)
		}
		in.raceAccess(dst.obj, dst.off, n*esz, true)
	}
	// overlapping copies: buffer first
	tmp := make([]Value, n*esz)
	for i := range tmp {
		tmp[i] = srcGet(i)
	}
	for i, v := range tmp {
		dst.obj.set(dst.off+i, v)
	}
	return tc.Const(uint64(n), 64)
}

// ---------- package init ----------

var initWhitelist = map[string]bool{
	"errors": false, "io": true, "io/fs": true, "internal/oserror": true, "syscall": false, "strconv": true,
	"unicode/utf8": true, "path": true, "sort": true, "strings": true, "internal/bytealg": false, "time": false,
	"path/filepath": true, "internal/filepathlite": true, "math/bits": true, "unicode": false, "math": false, "bytes": true,
	"internal/stringslite": true, "internal/itoa": true,
}

func (in *Interp) ensureInit(pkg *ssa.Package) {
	if in.inited[pkg] {
		return
	}
	in.inited[pkg] = true
	path := pkg.Pkg.Path()
	if pkg != in.p.pkg && !initWhitelist[path] {
		if _, listed := initWhitelist[path]; !listed {
			panic(engineErr("global of package " + path + " touched; package not in init whitelist (" + in.where() + ")"))
		}
		return // listed as false: globals stay zero / are modelled
	}
	initFn := pkg.Func("init")
	if initFn == nil || len(initFn.Blocks) == 0 {
		return
	}
	in.runNested(initFn, nil)
}

// runNested runs fn to completion on a temporary thread (used for package init only; no blocking ops allowed).
func (in *Interp) runNested(fn *ssa.Function, args []Value) Value {
	saved := in.cur
	th := &Thread{id: -1}
	in.cur = th
	in.pushFrame(th, fn, args, nil, -1)
	for len(th.frames) > 0 {
		if !in.step(th) {
			panic(engineErr("nested run blocked in " + fn.String()))
		}
	}
	in.cur = saved
	return th.result
}

// ---------- natives ----------

var natives map[string]nativeFn

func init() {
	natives = map[string]nativeFn{}
	noop := func(in *Interp, cc *callCtx, args []Value) (Value, nativeStatus) { return nil, nDone }
	for _, n := range []string{"log.Println", "log.Printf", "log.Print", "fmt.Printf", "fmt.Println", "fmt.Print",
		"runtime.Gosched", "runtime.SetFinalizer", "runtime.KeepAlive", "(*strings.Builder).copyCheck", "fmt.Fprintf", "fmt.Fprintln", "fmt.Fprint",
		"(*log.Logger).Printf", "(*log.Logger).Println", "(*log.Logger).Print"} {
		natives[n] = noop
	}
	natives["fmt.Printf"] = func(in *Interp, cc *callCtx, args []Value) (Value, nativeStatus) {
		return Tuple{in.tc.Const(0, 64), Iface{}}, nDone
	}
	natives["fmt.Println"] = natives["fmt.Printf"]
	natives["fmt.Print"] = natives["fmt.Printf"]
	natives["fmt.Fprintf"] = natives["fmt.Printf"]
	natives["fmt.Fprintln"] = natives["fmt.Printf"]
	natives["fmt.Fprint"] = natives["fmt.Printf"]
	natives["fmt.Sprintf"] = func(in *Interp, cc *callCtx, args []Value) (Value, nativeStatus) {
		return in.nativeSprintf(args[0].(Str), args[1].(Slice)), nDone
	}
	natives["fmt.Sprint"] = func(in *Interp, cc *callCtx, args []Value) (Value, nativeStatus) {
		return in.nativeSprintf(Str{s: "%v"}, args[0].(Slice)), nDone
	}
	natives["fmt.Sprintln"] = func(in *Interp, cc *callCtx, args []Value) (Value, nativeStatus) {
		return in.nativeSprintf(Str{s: "%v\n"}, args[0].(Slice)), nDone
	}
	natives["fmt.Errorf"] = func(in *Interp, cc *callCtx, args []Value) (Value, nativeStatus) {
		s := in.nativeSprintf(args[0].(Str), args[1].(Slice))
		return in.makeError(s.(Str)), nDone
	}
	for _, n := range []string{"log.Panicf", "log.Panic", "log.Panicln"} {
		natives[n] = func(in *Interp, cc *callCtx, args []Value) (Value, nativeStatus) {
			in.goPanic("log.Panic")
			return nil, nDone
		}
	}
	for _, n := range []string{"log.Fatal", "log.Fatalf", "log.Fatalln", "os.Exit"} {
		natives[n] = func(in *Interp, cc *callCtx, args []Value) (Value, nativeStatus) {
			in.finding("PANIC", "exit@"+in.siteID(), "process exit (log.Fatal/os.Exit) at "+in.where(), in.model)
			in.endPath("exit")
			return nil, nDone
		}
	}
	natives["flag.Bool"] = func(in *Interp, cc *callCtx, args []Value) (Value, nativeStatus) {
		o := in.newObject(1, "flag.Bool")
		o.cells[0] = args[1]
		return Ptr{obj: o}, nDone
	}
	natives["internal/abi.NoEscape"] = func(in *Interp, cc *callCtx, args []Value) (Value, nativeStatus) { return args[0], nDone }
	natives["internal/bytealg.IndexByteString"] = func(in *Interp, cc *callCtx, args []Value) (Value, nativeStatus) {
		return in.indexByte(args[0].(Str).Cells(in.tc), in.term(args[1])), nDone
	}
	natives["internal/bytealg.IndexByte"] = func(in *Interp, cc *callCtx, args []Value) (Value, nativeStatus) {
		return in.indexByte(in.sliceBytes(args[0].(Slice)), in.term(args[1])), nDone
	}
	natives["internal/bytealg.CountString"] = func(in *Interp, cc *callCtx, args []Value) (Value, nativeStatus) {
		return in.countByte(args[0].(Str).Cells(in.tc), in.term(args[1])), nDone
	}
	natives["internal/bytealg.Count"] = func(in *Interp, cc *callCtx, args []Value) (Value, nativeStatus) {
		return in.countByte(in.sliceBytes(args[0].(Slice)), in.term(args[1])), nDone
	}
	natives["internal/bytealg.Equal"] = func(in *Interp, cc *callCtx, args []Value) (Value, nativeStatus) {
		a, b := in.sliceBytes(args[0].(Slice)), in.sliceBytes(args[1].(Slice))
		return in.strEq(mkStr(a), mkStr(b)), nDone
	}
	natives["bytes.Equal"] = natives["internal/bytealg.Equal"]
	natives["internal/bytealg.IndexString"] = func(in *Interp, cc *callCtx, args []Value) (Value, nativeStatus) {
		a, b := args[0].(Str), args[1].(Str)
		if !a.IsConcrete() || !b.IsConcrete() {
			panic(engineErr("bytealg.IndexString on symbolic strings"))
		}
		return in.tc.Const(uint64(int64(strings.Index(a.Concrete(), b.Concrete()))), 64), nDone
	}
	natives["strings.Index"] = func(in *Interp, cc *callCtx, args []Value) (Value, nativeStatus) {
		a, b := args[0].(Str), args[1].(Str)
		if a.IsConcrete() && b.IsConcrete() {
			return in.tc.Const(uint64(int64(strings.Index(a.Concrete(), b.Concrete()))), 64), nDone
		}
		if b.Len() == 1 {
			return in.indexByte(a.Cells(in.tc), b.Cells(in.tc)[0]), nDone
		}
		panic(engineErr("strings.Index on symbolic strings"))
	}
	natives["errors.As"] = func(in *Interp, cc *callCtx, args []Value) (Value, nativeStatus) {
		return in.errorsAs(args[0].(Iface), args[1].(Iface)), nDone
	}
	natives["errors.Is"] = func(in *Interp, cc *callCtx, args []Value) (Value, nativeStatus) {
		err, target := args[0].(Iface), args[1].(Iface)
		for err.t != nil {
			if e := in.valEqSafe(err, target); e {
				return in.tc.True, nDone
			}
			next, ok := in.unwrapErr(err)
			if !ok {
				break
			}
			err = next
		}
		return in.tc.Bool(err.t == nil && target.t == nil), nDone
	}
	registerSyncNatives()
	registerIntrinsics()
}

func (in *Interp) valEqSafe(a, b Iface) bool {
	if a.t == nil || b.t == nil {
		return a.t == nil && b.t == nil
	}
	if !types.Identical(a.t, b.t) || !types.Comparable(a.t) {
		return false
	}
	e := in.valEq(a.v, b.v)
	return in.branch(e)
}

func (in *Interp) sliceBytes(s Slice) []*Term {
	n := int(in.concretize(s.len, "byte slice len"))
	r := make([]*Term, n)
	for i := 0; i < n; i++ {
		r[i] = in.term(s.obj.get(s.off + i))
	}
	return r
}

func (in *Interp) indexByte(cells []*Term, c *Term) Value {
	for i, b := range cells {
		if in.branch(in.tc.Eq(b, c)) {
			return in.tc.Const(uint64(i), 64)
		}
	}
	return in.tc.Const(^uint64(0), 64)
}

func (in *Interp) countByte(cells []*Term, c *Term) Value {
	n := 0
	for _, b := range cells {
		if in.branch(in.tc.Eq(b, c)) {
			n++
		}
	}
	return in.tc.Const(uint64(n), 64)
}

// makeError builds an errors.errorString-like value: we use *go9p-independent* fmt.wrapError-free representation:
// a pointer to a one-cell object holding the string, typed as *errors.errorString.
func (in *Interp) makeError(s Str) Value {
	errPkg := in.p.prog.ImportedPackage("errors")
	if errPkg == nil {
		panic(engineErr("errors package not loaded"))
	}
	t := errPkg.Type("errorString")
	o := in.newObject(1, "errorString")
	o.cells[0] = s
	return Iface{t: types.NewPointer(t.Type()), v: Ptr{obj: o}}
}

func (in *Interp) unwrapErr(err Iface) (Iface, bool) {
	pt, ok := err.t.Underlying().(*types.Pointer)
	if !ok {
		return Iface{}, false
	}
	st, ok := pt.Elem().Underlying().(*types.Struct)
	if !ok {
		return Iface{}, false
	}
	p := err.v.(Ptr)
	if p.obj == nil {
		return Iface{}, false
	}
	for i := 0; i < st.NumFields(); i++ {
		if st.Field(i).Name() == "Err" || st.Field(i).Name() == "err" {
			if _, isI := st.Field(i).Type().Underlying().(*types.Interface); isI {
				off := in.lay.of(pt.Elem()).fields[i]
				v, _ := p.obj.get(p.off + off).(Iface)
				return v, true
			}
		}
	}
	return Iface{}, false
}

func (in *Interp) errorsAs(err Iface, target Iface) Value {
	tp, ok := target.t.Underlying().(*types.Pointer)
	if !ok {
		in.goPanic("errors.As: target must be a non-nil pointer")
	}
	want := tp.Elem()
	dst := target.v.(Ptr)
	for err.t != nil {
		match := false
		if it, isI := want.Underlying().(*types.Interface); isI {
			match = types.Implements(err.t, it)
			if match {
				in.store(dst, want, err)
			}
		} else if types.Identical(err.t, want) {
			match = true
			in.store(dst, want, err.v)
		}
		if match {
			return in.tc.True
		}
		next, ok := in.unwrapErr(err)
		if !ok {
			break
		}
		err = next
	}
	return in.tc.False
}

func (in *Interp) nativeSprintf(format Str, va Slice) Value {
	n := int(in.concretize(va.len, "varargs"))
	var goArgs []interface{}
	for i := 0; i < n; i++ {
		goArgs = append(goArgs, in.toGo(va.obj.get(va.off+i)))
	}
	f := "?"
	if format.IsConcrete() {
		f = format.Concrete()
	}
	return Str{s: fmt.Sprintf(f, goArgs...)}
}

type symPlaceholder struct{}

func (symPlaceholder) String() string { return "?" }

func (in *Interp) toGo(v Value) interface{} {
	switch x := v.(type) {
	case Iface:
		if x.t == nil {
			return nil
		}
		if t, ok := x.v.(*Term); ok {
			if !t.IsConst() {
				return symPlaceholder{}
			}
			if t.w == 0 {
				return t.k != 0
			}
			if _, s, _ := isIntType(x.t); s {
				return sext64(t.k, t.w)
			}
			return t.k
		}
		if s, ok := x.v.(Str); ok {
			if s.IsConcrete() {
				return s.Concrete()
			}
			return symPlaceholder{}
		}
		if p, ok := x.v.(Ptr); ok {
			// error values: try an Err/s string field
			if p.obj != nil {
				if s, ok := p.obj.get(p.off).(Str); ok && s.IsConcrete() {
					return s.Concrete()
				}
			}
			return "<ptr>"
		}
		if sl, ok := x.v.(Slice); ok && sl.len.IsConst() {
			var bs []interface{}
			for i := 0; i < int(sl.len.k) && i < 32; i++ {
				if t, ok := sl.obj.get(sl.off + i).(*Term); ok && t.IsConst() {
					bs = append(bs, t.k)
				} else {
					bs = append(bs, "?")
				}
			}
			return bs
		}
		return symPlaceholder{}
	}
	return symPlaceholder{}
}
