package main

// Path exploration by re-execution: decisions, work list, VCs, findings.

import (
	"fmt"
	"math/rand"
	"sort"
	"strings"
	"sync"
	"time"
)

type DecKind uint8

const (
	DBr DecKind = iota
	DConc
	DChoice // harness vxChoose / map key / select case
	DSched
)

type Decision struct {
	K DecKind
	V uint64
}

func (d Decision) String() string {
	return fmt.Sprintf("%c%d", "BCNS"[d.K], d.V)
}

type WorkItem struct {
	dec   []Decision
	model Model
}

type Finding struct {
	Kind     string // PANIC ASSERT HANG RACE UNWIND ENGINE
	ID       string // assert id or site
	Msg      string
	Harness  string
	Stack    []string
	Nondet   []NondetVal
	Observe  map[string]string
	Dec      []Decision
	Count    int
	Sched    []string
	Events   []string
	EngineOnly bool // asserts a fact only the engine observes (locks held): no native confirmation possible
	Threads  int // goroutines alive when the finding was made (>1: the counterexample includes a schedule)
}

type NondetVal struct {
	Name  string `json:"name"`
	Kind  string `json:"kind"`
	Value uint64 `json:"value"`
	Bytes []byte `json:"bytes,omitempty"`
}

type Sample struct {
	Harness string            `json:"harness"`
	Dec     string            `json:"decisions"`
	Nondet  []NondetVal       `json:"nondet"`
	Observe map[string]string `json:"observe,omitempty"`
	Verdict string            `json:"verdict"`
}

// Shared (per harness run) exploration state.
type Explorer struct {
	mu        sync.Mutex
	cond      *sync.Cond
	stack     []*WorkItem
	active    int
	findings  map[string]*Finding
	order     []string
	reached   map[string]int
	Paths     int
	PathsOK   int
	Infeasible int
	Forks     int
	VCs       int
	Steps     int64
	Inconcl   []string
	EngineErr []string
	samples   []Sample
	funcs     map[string]bool
	stubs     map[string]bool
	rng       *rand.Rand
	maxPaths  int
	deadline  time.Time
	stopped   bool
	queries   [3]int
	solverT   time.Duration
	maxSamples int
	witnesses []Sample // candidates for native witness replay
	start     time.Time
	seed      int64
}

func NewExplorer(seed int64, maxPaths int, deadline time.Time) *Explorer {
	e := &Explorer{findings: map[string]*Finding{}, reached: map[string]int{}, funcs: map[string]bool{}, stubs: map[string]bool{},
		rng: rand.New(rand.NewSource(seed)), maxPaths: maxPaths, deadline: deadline, maxSamples: 6, start: time.Now(), seed: seed}
	e.cond = sync.NewCond(&e.mu)
	return e
}

func (e *Explorer) push(items []*WorkItem) {
	if len(items) == 0 {
		return
	}
	e.mu.Lock()
	// VERIF_SEED varies the exploration order (and thereby which completed paths become witness samples)
	if e.seed != 1 && len(items) > 1 {
		e.rng.Shuffle(len(items), func(i, j int) { items[i], items[j] = items[j], items[i] })
	}
	e.stack = append(e.stack, items...)
	e.Forks += len(items)
	e.mu.Unlock()
	e.cond.Broadcast()
}

// pop blocks until an item is available or exploration is finished (nil).
func (e *Explorer) pop() *WorkItem {
	e.mu.Lock()
	defer e.mu.Unlock()
	for {
		if e.stopped {
			return nil
		}
		if n := len(e.stack); n > 0 {
			// once violations are in hand there is no point in exhausting a (possibly exploded) path space
			early := len(e.findings) > 0 && time.Since(e.start) > 90*time.Second
			if e.maxPaths > 0 && e.Paths >= e.maxPaths || time.Now().After(e.deadline) || early {
				e.stopped = true
				e.Inconcl = append(e.Inconcl, fmt.Sprintf("INCOMPLETE: budget exhausted with %d work items left (paths=%d)", n, e.Paths))
				e.cond.Broadcast()
				return nil
			}
			it := e.stack[n-1]
			e.stack = e.stack[:n-1]
			e.active++
			e.Paths++
			return it
		}
		if e.active == 0 {
			e.cond.Broadcast()
			return nil
		}
		e.cond.Wait()
	}
}

func (e *Explorer) done() {
	e.mu.Lock()
	e.active--
	e.mu.Unlock()
	e.cond.Broadcast()
}

func (e *Explorer) addFinding(f *Finding) {
	key := f.Kind + "|" + f.ID
	// observations whose name starts with '@' are discriminators: part of the identity of a finding
	var dn []string
	for n := range f.Observe {
		if strings.HasPrefix(n, "@") {
			dn = append(dn, n)
		}
	}
	sort.Strings(dn)
	for _, n := range dn {
		key += "|" + n + "=" + f.Observe[n]
	}
	e.mu.Lock()
	defer e.mu.Unlock()
	if old, ok := e.findings[key]; ok {
		old.Count++
		return
	}
	f.Count = 1
	e.findings[key] = f
	e.order = append(e.order, key)
}

func (e *Explorer) Findings() []*Finding {
	var r []*Finding
	keys := append([]string{}, e.order...)
	sort.Strings(keys)
	for _, k := range keys {
		r = append(r, e.findings[k])
	}
	return r
}

// ---------- per-path machinery on the interpreter ----------

type pathEnd struct {
	reason string
}

func (in *Interp) endPath(reason string) {
	panic(pathEnd{reason})
}

func (in *Interp) addPC(t *Term) {
	if t.IsConst() {
		return
	}
	in.pc = append(in.pc, t)
	in.solver.Assert(t)
	// remember decided conditions: hash-consing makes re-evaluations of the same condition free
	if t.op == OpNot {
		in.known[t.a] = false
	} else {
		in.known[t] = true
		if t.op == OpEq && t.b.op == OpConst && t.a.op != OpConst {
			in.concKnown[t.a] = t.b.k
		} else if t.op == OpEq && t.a.op == OpConst && t.b.op != OpConst {
			in.concKnown[t.b] = t.a.k
		}
	}
}

func (in *Interp) eval(t *Term) uint64 {
	return t.Eval(in.model, in.memo)
}

func (in *Interp) setModel(m Model) {
	in.model = m
	in.memo = map[*Term]uint64{}
}

func (in *Interp) nextPrefix(k DecKind) (uint64, bool) {
	if in.pos < len(in.prefix) {
		d := in.prefix[in.pos]
		if d.K != k {
			panic(engineErr(fmt.Sprintf("decision kind mismatch at %d: have %v want kind %d (nondeterministic re-execution)", in.pos, d, k)))
		}
		in.pos++
		in.dec = append(in.dec, d)
		return d.V, true
	}
	return 0, false
}

func (in *Interp) cloneDec(extra Decision) []Decision {
	d := make([]Decision, len(in.dec)+1)
	copy(d, in.dec)
	d[len(in.dec)] = extra
	return d
}

func (in *Interp) noteUnknown(what string) {
	in.ex.mu.Lock()
	if len(in.ex.Inconcl) < 20 {
		in.ex.Inconcl = append(in.ex.Inconcl, "INCONCLUSIVE: solver unknown at "+what)
	}
	in.ex.mu.Unlock()
}

// branch decides a symbolic boolean; the untaken feasible side goes to the work list.
func (in *Interp) branch(cond *Term) bool {
	if cond.IsConst() {
		return cond.k != 0
	}
	if v, ok := in.known[cond]; ok {
		return v
	}
	if sc := in.substKnown(cond); sc.IsConst() {
		return sc.k != 0
	}
	if v, ok := in.nextPrefix(DBr); ok {
		side := v != 0
		if side {
			in.addPC(cond)
		} else {
			in.addPC(in.tc.Not(cond))
		}
		return side
	}
	in.qprof("branch")
	side := in.eval(cond) != 0
	other := cond
	if side {
		other = in.tc.Not(cond)
	}
	verdict, m := in.solver.CheckWith(other, true)
	switch verdict {
	case Sat:
		in.ex.push([]*WorkItem{{dec: in.cloneDec(Decision{DBr, b2u(!side)}), model: m}})
	case Unknown:
		in.noteUnknown("branch " + in.where())
	}
	in.dec = append(in.dec, Decision{DBr, b2u(side)})
	if side {
		in.addPC(cond)
	} else {
		in.addPC(in.tc.Not(cond))
	}
	return side
}

// concretize forks on every feasible value of t (at most cap values).
func (in *Interp) concretize(t *Term, what string) uint64 {
	if t.IsConst() {
		return t.k
	}
	if v, ok := in.concKnown[t]; ok {
		return v
	}
	if st := in.substKnown(t); st.IsConst() {
		return st.k
	}
	if v, ok := in.nextPrefix(DConc); ok {
		in.addPC(in.tc.Eq(t, in.tc.Const(v, t.w)))
		return v
	}
	in.qprof("conc:" + what)
	v0 := in.eval(t)
	in.solver.Push()
	in.solver.Assert(in.tc.Ne(t, in.tc.Const(v0, t.w)))
	var items []*WorkItem
	n := 0
	for {
		verdict := in.solver.Check()
		if verdict == Unsat {
			break
		}
		if verdict == Unknown {
			in.noteUnknown("concretize " + what + " " + in.where())
			break
		}
		m := in.solver.GetModel()
		v := t.Eval(m, map[*Term]uint64{})
		items = append(items, &WorkItem{dec: in.cloneDec(Decision{DConc, v}), model: m})
		n++
		if n >= in.concCap {
			in.solver.Pop()
			in.finding("UNWIND", "concretize:"+what+"@"+in.where(), fmt.Sprintf("more than %d feasible values for %s", in.concCap, what), nil)
			in.endPath("unwind")
		}
		in.solver.Assert(in.tc.Ne(t, in.tc.Const(v, t.w)))
	}
	in.solver.Pop()
	in.ex.push(items)
	in.dec = append(in.dec, Decision{DConc, v0})
	in.addPC(in.tc.Eq(t, in.tc.Const(v0, t.w)))
	return v0
}

// feasibleCount: number of feasible values of t, up to limit+1.
func (in *Interp) feasibleMoreThan(t *Term, limit int) bool {
	if t.IsConst() {
		return false
	}
	in.solver.Push()
	defer in.solver.Pop()
	n := 0
	for {
		verdict := in.solver.Check()
		if verdict != Sat {
			return verdict == Unknown
		}
		n++
		if n > limit {
			return true
		}
		m := in.solver.GetModel()
		v := t.Eval(m, map[*Term]uint64{})
		in.solver.Assert(in.tc.Ne(t, in.tc.Const(v, t.w)))
	}
}

// choose: nondeterministic choice among n alternatives (no solver involved).
func (in *Interp) choose(n int, kind DecKind) int {
	if n <= 1 {
		return 0
	}
	if v, ok := in.nextPrefix(kind); ok {
		return int(v)
	}
	var items []*WorkItem
	for i := n - 1; i >= 1; i-- {
		items = append(items, &WorkItem{dec: in.cloneDec(Decision{kind, uint64(i)}), model: in.model})
	}
	in.ex.push(items)
	in.dec = append(in.dec, Decision{kind, 0})
	return 0
}

// chooseFrom: like choose but over explicit values (scheduler thread ids).
func (in *Interp) chooseFrom(vals []int, kind DecKind) int {
	if len(vals) == 1 {
		return vals[0]
	}
	if v, ok := in.nextPrefix(kind); ok {
		return int(v)
	}
	var items []*WorkItem
	for i := len(vals) - 1; i >= 1; i-- {
		items = append(items, &WorkItem{dec: in.cloneDec(Decision{kind, uint64(vals[i])}), model: in.model})
	}
	in.ex.push(items)
	in.dec = append(in.dec, Decision{kind, uint64(vals[0])})
	return vals[0]
}

// assume adds cond to the path condition; an infeasible assumption ends the path quietly.
func (in *Interp) assume(cond *Term) {
	if cond.IsConst() {
		if cond.k == 0 {
			in.endPath("assume-false")
		}
		return
	}
	if in.pos < len(in.prefix) {
		// still replaying: PC is known feasible up to the end of the prefix
		in.addPC(cond)
		return
	}
	if in.eval(cond) != 0 {
		in.addPC(cond)
		return
	}
	verdict, m := in.solver.CheckWith(cond, true)
	switch verdict {
	case Sat:
		in.addPC(cond)
		in.setModel(m)
	case Unsat:
		in.endPath("assume-infeasible")
	default:
		in.noteUnknown("assume " + in.where())
		in.endPath("assume-unknown")
	}
}

// vc: bad must be unsatisfiable under PC; otherwise a finding. Execution continues under ¬bad.
func (in *Interp) vcLazy(bad *Term, kind string, idmsg func() (string, string)) {
	if bad.IsConst() {
		if bad.k != 0 {
			id, msg := idmsg()
			in.finding(kind, id, msg, in.model)
			in.endPath("violation")
		}
		return
	}
	if v, ok := in.known[bad]; ok && !v {
		return
	}
	if sb := in.substKnown(bad); sb.IsConst() && sb.k == 0 {
		return
	}
	in.ex.mu.Lock()
	in.ex.VCs++
	in.ex.mu.Unlock()
	if in.pos < len(in.prefix) {
		// already discharged when this prefix was first explored
		in.addPC(in.tc.Not(bad))
		return
	}
	if in.eval(bad) != 0 {
		id, msg := idmsg()
		in.finding(kind, id, msg, in.model)
		verdict, m := in.solver.CheckWith(in.tc.Not(bad), true)
		if verdict != Sat {
			if verdict == Unknown {
				in.noteUnknown("vc-continue " + in.where())
			}
			in.endPath("violation-all")
		}
		in.addPC(in.tc.Not(bad))
		in.setModel(m)
		return
	}
	in.qprof("vc:" + kind)
	verdict, m := in.solver.CheckWith(bad, true)
	switch verdict {
	case Sat:
		id, msg := idmsg()
		in.finding(kind, id, msg, m)
	case Unknown:
		in.noteUnknown("vc " + kind + " " + in.where())
	}
	in.addPC(in.tc.Not(bad))
}

func (in *Interp) nondetValues(m Model) []NondetVal {
	memo := map[*Term]uint64{}
	var r []NondetVal
	for _, nd := range in.nondet {
		nv := NondetVal{Name: nd.name, Kind: nd.kind}
		if nd.bytes != nil {
			nv.Bytes = make([]byte, len(nd.bytes))
			for i, t := range nd.bytes {
				nv.Bytes[i] = byte(t.Eval(m, memo))
			}
		} else if nd.term != nil {
			nv.Value = nd.term.Eval(m, memo)
		} else {
			nv.Value = nd.conc
		}
		r = append(r, nv)
	}
	return r
}

func (in *Interp) observeValues(m Model) map[string]string {
	if len(in.observed) == 0 {
		return nil
	}
	memo := map[*Term]uint64{}
	r := map[string]string{}
	for _, o := range in.observed {
		r[o.name] = in.renderValue(o.v, m, memo)
	}
	return r
}

func (in *Interp) renderValue(v Value, m Model, memo map[*Term]uint64) string {
	switch x := v.(type) {
	case *Term:
		return fmt.Sprint(x.Eval(m, memo))
	case Str:
		if x.sym == nil {
			return fmt.Sprintf("%q", x.s)
		}
		b := make([]byte, len(x.sym))
		for i, t := range x.sym {
			b[i] = byte(t.Eval(m, memo))
		}
		return fmt.Sprintf("%q", string(b))
	case Slice:
		if x.obj == nil {
			return "[]"
		}
		n := int(x.len.Eval(m, memo))
		var parts []string
		for i := 0; i < n && i < 64; i++ {
			parts = append(parts, in.renderValue(x.obj.get(x.off+i), m, memo))
		}
		return "[" + strings.Join(parts, " ") + "]"
	}
	return valString(v)
}

func (in *Interp) finding(kind, id, msg string, m Model) {
	f := &Finding{Kind: kind, ID: id, Msg: msg, Harness: in.harness, Stack: in.stack(), Dec: append([]Decision{}, in.dec...)}
	if m != nil {
		f.Nondet = in.nondetValues(m)
		f.Observe = in.observeValues(m)
	}
	f.Threads = len(in.threads)
	f.EngineOnly = in.engineOnly
	f.Sched = append([]string{}, in.schedLog...)
	f.Events = append([]string{}, in.events...)
	in.ex.addFinding(f)
}

func decString(d []Decision) string {
	var sb strings.Builder
	for i, x := range d {
		if i > 0 {
			sb.WriteByte(' ')
		}
		sb.WriteString(x.String())
		if i > 400 {
			sb.WriteString(" ...")
			break
		}
	}
	return sb.String()
}

var qprofOn = false
var qprofMu sync.Mutex
var qprofTab = map[string]int{}

func (in *Interp) qprof(kind string) {
	if !qprofOn {
		return
	}
	k := kind + " @ " + in.where()
	qprofMu.Lock()
	qprofTab[k]++
	qprofMu.Unlock()
}

func qprofDump() {
	type kv struct {
		k string
		v int
	}
	var l []kv
	for k, v := range qprofTab {
		l = append(l, kv{k, v})
	}
	sort.Slice(l, func(i, j int) bool { return l[i].v > l[j].v })
	for i, e := range l {
		if i > 25 {
			break
		}
		fmt.Printf("  qprof %7d %s\n", e.v, e.k)
	}
}

// substKnown replaces sub-terms whose value the path condition fixes (t == const) by that constant.
func (in *Interp) substKnown(t *Term) *Term {
	if len(in.concKnown) == 0 || in.tc.Raw {
		return t
	}
	if in.substGen != len(in.concKnown) {
		in.substGen = len(in.concKnown)
		in.substMemo = map[*Term]*Term{}
	}
	return in.subst(t)
}

func (in *Interp) subst(t *Term) *Term {
	if t == nil || t.op == OpConst {
		return t
	}
	if r, ok := in.substMemo[t]; ok {
		return r
	}
	var r *Term
	if v, ok := in.concKnown[t]; ok {
		r = in.tc.Const(v, t.w)
	} else if t.op == OpVar {
		r = t
	} else {
		r = in.tc.Rebuild(t, in.subst(t.a), in.subst(t.b), in.subst(t.c))
	}
	in.substMemo[t] = r
	return r
}
