package main

// Hash-consed bit-vector / boolean terms with Go's wrapping semantics, constant folding and a
// small rewrite set (bit-segment normal form for zext/shl/lshr/or/extract/concat chains).

import (
	"fmt"
	"math/bits"
	"strings"
)

type Op uint8

const (
	OpConst Op = iota
	OpVar
	// boolean
	OpNot
	OpAnd
	OpOr
	OpIte // c ? a : b   (result width w; w==0 -> bool)
	OpEq
	// bit-vector
	OpAdd
	OpSub
	OpMul
	OpUDiv
	OpURem
	OpSDiv
	OpSRem
	OpBAnd
	OpBOr
	OpBXor
	OpBNot
	OpNeg
	OpShl
	OpLShr
	OpAShr
	OpUlt
	OpUle
	OpSlt
	OpSle
	OpExtract // k = hi<<8|lo
	OpConcat  // a high, b low
	OpZExt
	OpSExt
)

var opNames = map[Op]string{OpNot: "not", OpAnd: "and", OpOr: "or", OpIte: "ite", OpEq: "=",
	OpAdd: "bvadd", OpSub: "bvsub", OpMul: "bvmul", OpUDiv: "bvudiv", OpURem: "bvurem", OpSDiv: "bvsdiv", OpSRem: "bvsrem",
	OpBAnd: "bvand", OpBOr: "bvor", OpBXor: "bvxor", OpBNot: "bvnot", OpNeg: "bvneg", OpShl: "bvshl", OpLShr: "bvlshr", OpAShr: "bvashr",
	OpUlt: "bvult", OpUle: "bvule", OpSlt: "bvslt", OpSle: "bvsle", OpConcat: "concat"}

// Term: w==0 means Bool, otherwise a bit-vector of width w (1..64).
type Term struct {
	op      Op
	w       int
	a, b, c *Term
	k       uint64
	name    string
	id      int
}

type termKey struct {
	op      Op
	w       int
	a, b, c int
	k       uint64
	name    string
}

type TermCtx struct {
	tab    map[termKey]*Term
	nextID int
	True   *Term
	False  *Term
	Raw    bool // only constant folding: every other verification condition reaches the solver
}

func NewTermCtx() *TermCtx {
	c := &TermCtx{tab: make(map[termKey]*Term, 1024)}
	c.True = c.mk(OpConst, 0, nil, nil, nil, 1, "")
	c.False = c.mk(OpConst, 0, nil, nil, nil, 0, "")
	return c
}

func tid(t *Term) int {
	if t == nil {
		return -1
	}
	return t.id
}

func (c *TermCtx) mk(op Op, w int, a, b, cc *Term, k uint64, name string) *Term {
	key := termKey{op, w, tid(a), tid(b), tid(cc), k, name}
	if t, ok := c.tab[key]; ok {
		return t
	}
	t := &Term{op: op, w: w, a: a, b: b, c: cc, k: k, name: name, id: c.nextID}
	c.nextID++
	c.tab[key] = t
	return t
}

func mask(w int) uint64 {
	if w >= 64 {
		return ^uint64(0)
	}
	return (uint64(1) << uint(w)) - 1
}

func sext64(v uint64, w int) int64 {
	if w >= 64 {
		return int64(v)
	}
	sh := uint(64 - w)
	return int64(v<<sh) >> sh
}

func (t *Term) IsConst() bool { return t.op == OpConst }
func (t *Term) IsBool() bool  { return t.w == 0 }

func (c *TermCtx) Const(v uint64, w int) *Term {
	if w == 0 {
		if v != 0 {
			return c.True
		}
		return c.False
	}
	return c.mk(OpConst, w, nil, nil, nil, v&mask(w), "")
}
func (c *TermCtx) Bool(b bool) *Term {
	if b {
		return c.True
	}
	return c.False
}
func (c *TermCtx) Var(name string, w int) *Term { return c.mk(OpVar, w, nil, nil, nil, 0, name) }

// ---------- boolean ----------

func (c *TermCtx) Not(a *Term) *Term {
	if a.op == OpConst {
		return c.Bool(a.k == 0)
	}
	if a.op == OpNot {
		return a.a
	}
	return c.mk(OpNot, 0, a, nil, nil, 0, "")
}

func (c *TermCtx) And(a, b *Term) *Term {
	if a.op == OpConst {
		if a.k == 0 {
			return c.False
		}
		return b
	}
	if b.op == OpConst {
		if b.k == 0 {
			return c.False
		}
		return a
	}
	if a == b {
		return a
	}
	if (a.op == OpNot && a.a == b) || (b.op == OpNot && b.a == a) {
		return c.False
	}
	if a.id > b.id {
		a, b = b, a
	}
	return c.mk(OpAnd, 0, a, b, nil, 0, "")
}

func (c *TermCtx) Or(a, b *Term) *Term {
	if a.op == OpConst {
		if a.k != 0 {
			return c.True
		}
		return b
	}
	if b.op == OpConst {
		if b.k != 0 {
			return c.True
		}
		return a
	}
	if a == b {
		return a
	}
	if (a.op == OpNot && a.a == b) || (b.op == OpNot && b.a == a) {
		return c.True
	}
	if a.id > b.id {
		a, b = b, a
	}
	return c.mk(OpOr, 0, a, b, nil, 0, "")
}

func (c *TermCtx) Ite(cond, a, b *Term) *Term {
	if a.w != b.w {
		panic(fmt.Sprintf("ite width mismatch %d %d", a.w, b.w))
	}
	if cond.op == OpConst {
		if cond.k != 0 {
			return a
		}
		return b
	}
	if a == b {
		return a
	}
	if a.w == 0 && !c.Raw {
		if a.op == OpConst && b.op == OpConst {
			if a.k != 0 {
				return cond
			}
			return c.Not(cond)
		}
		if a.op == OpConst {
			if a.k != 0 {
				return c.Or(cond, b)
			}
			return c.And(c.Not(cond), b)
		}
		if b.op == OpConst {
			if b.k != 0 {
				return c.Or(c.Not(cond), a)
			}
			return c.And(cond, a)
		}
	}
	return c.mk(OpIte, a.w, a, b, cond, 0, "")
}

func (c *TermCtx) Eq(a, b *Term) *Term {
	if a.w != b.w {
		panic(fmt.Sprintf("eq width mismatch %d %d (%s, %s)", a.w, b.w, a, b))
	}
	if a == b {
		return c.True
	}
	if a.op == OpConst && b.op == OpConst {
		return c.Bool(a.k == b.k)
	}
	if c.Raw {
		if a.id > b.id {
			a, b = b, a
		}
		return c.mk(OpEq, 0, a, b, nil, 0, "")
	}
	if a.w == 0 {
		if a.op == OpConst {
			if a.k != 0 {
				return b
			}
			return c.Not(b)
		}
		if b.op == OpConst {
			if b.k != 0 {
				return a
			}
			return c.Not(a)
		}
	}
	// zext(x) == const  ->  x == const' (or false)
	if a.op == OpConst {
		a, b = b, a
	}
	if b.op == OpConst {
		if a.op == OpZExt {
			if b.k&^mask(a.a.w) != 0 {
				return c.False
			}
			return c.Eq(a.a, c.Const(b.k, a.a.w))
		}
		if a.op == OpConcat {
			lo := c.Eq(a.b, c.Const(b.k, a.b.w))
			hi := c.Eq(a.a, c.Const(b.k>>uint(a.b.w), a.a.w))
			return c.And(hi, lo)
		}
		if a.op == OpIte && a.a.op == OpConst && a.b.op == OpConst {
			// ite(c, k1, k2) == k
			ta, tb := a.a.k == b.k, a.b.k == b.k
			switch {
			case ta && tb:
				return c.True
			case ta:
				return a.c
			case tb:
				return c.Not(a.c)
			default:
				return c.False
			}
		}
	}
	if a.id > b.id {
		a, b = b, a
	}
	return c.mk(OpEq, 0, a, b, nil, 0, "")
}

func (c *TermCtx) Ne(a, b *Term) *Term { return c.Not(c.Eq(a, b)) }

// ---------- bit-vector ----------

func evalBin(op Op, w int, x, y uint64) uint64 {
	m := mask(w)
	x &= m
	y &= m
	switch op {
	case OpAdd:
		return (x + y) & m
	case OpSub:
		return (x - y) & m
	case OpMul:
		return (x * y) & m
	case OpUDiv:
		if y == 0 {
			return m
		}
		return x / y
	case OpURem:
		if y == 0 {
			return x
		}
		return x % y
	case OpSDiv:
		sx, sy := sext64(x, w), sext64(y, w)
		if sy == 0 {
			if sx < 0 {
				return 1
			}
			return m
		}
		if sy == -1 {
			return uint64(-sx) & m
		}
		return uint64(sx/sy) & m
	case OpSRem:
		sx, sy := sext64(x, w), sext64(y, w)
		if sy == 0 {
			return x
		}
		if sy == -1 {
			return 0
		}
		return uint64(sx%sy) & m
	case OpBAnd:
		return x & y
	case OpBOr:
		return x | y
	case OpBXor:
		return x ^ y
	case OpShl:
		if y >= uint64(w) {
			return 0
		}
		return (x << y) & m
	case OpLShr:
		if y >= uint64(w) {
			return 0
		}
		return x >> y
	case OpAShr:
		sx := sext64(x, w)
		if y >= uint64(w) {
			if sx < 0 {
				return m
			}
			return 0
		}
		return uint64(sx>>y) & m
	case OpUlt:
		return b2u(x < y)
	case OpUle:
		return b2u(x <= y)
	case OpSlt:
		return b2u(sext64(x, w) < sext64(y, w))
	case OpSle:
		return b2u(sext64(x, w) <= sext64(y, w))
	}
	panic("evalBin: bad op")
}

func b2u(b bool) uint64 {
	if b {
		return 1
	}
	return 0
}

func (c *TermCtx) Bin(op Op, a, b *Term) *Term {
	if a.w != b.w || a.w == 0 {
		panic(fmt.Sprintf("bin %s width mismatch %d %d", opNames[op], a.w, b.w))
	}
	w := a.w
	rw := w
	if op >= OpUlt && op <= OpSle {
		rw = 0
	}
	if a.op == OpConst && b.op == OpConst {
		return c.Const(evalBin(op, w, a.k, b.k), rw)
	}
	if c.Raw {
		return c.mk(op, rw, a, b, nil, 0, "")
	}
	switch op {
	case OpAdd:
		if a.op == OpConst {
			a, b = b, a
		}
		if b.op == OpConst {
			if b.k == 0 {
				return a
			}
			if a.op == OpAdd && a.b.op == OpConst {
				return c.Bin(OpAdd, a.a, c.Const(a.b.k+b.k, w))
			}
			if a.op == OpSub && a.b.op == OpConst {
				return c.Bin(OpAdd, a.a, c.Const(b.k-a.b.k, w))
			}
		}
	case OpSub:
		if b.op == OpConst {
			if b.k == 0 {
				return a
			}
			return c.Bin(OpAdd, a, c.Const(-b.k, w))
		}
		if a == b {
			return c.Const(0, w)
		}
	case OpMul:
		if a.op == OpConst {
			a, b = b, a
		}
		if b.op == OpConst {
			if b.k == 0 {
				return b
			}
			if b.k == 1 {
				return a
			}
			if bits.OnesCount64(b.k) == 1 {
				return c.Bin(OpShl, a, c.Const(uint64(bits.TrailingZeros64(b.k)), w))
			}
		}
	case OpBAnd:
		if a.op == OpConst {
			a, b = b, a
		}
		if a == b {
			return a
		}
		if b.op == OpConst {
			if b.k == 0 {
				return b
			}
			if b.k == mask(w) {
				return a
			}
			// low mask: zext(extract)
			if b.k&(b.k+1) == 0 {
				n := bits.Len64(b.k)
				return c.ZExt(c.Extract(a, n-1, 0), w)
			}
			if r := c.segAndConst(a, b.k); r != nil {
				return r
			}
		}
	case OpBOr:
		if a.op == OpConst {
			a, b = b, a
		}
		if a == b {
			return a
		}
		if b.op == OpConst {
			if b.k == 0 {
				return a
			}
			if b.k == mask(w) {
				return b
			}
		}
		if r := c.segOr(a, b); r != nil {
			return r
		}
	case OpBXor:
		if a.op == OpConst {
			a, b = b, a
		}
		if a == b {
			return c.Const(0, w)
		}
		if b.op == OpConst && b.k == 0 {
			return a
		}
	case OpShl:
		if b.op == OpConst {
			if b.k == 0 {
				return a
			}
			if b.k >= uint64(w) {
				return c.Const(0, w)
			}
			k := int(b.k)
			return c.Concat(c.Extract(a, w-k-1, 0), c.Const(0, k))
		}
	case OpLShr:
		if b.op == OpConst {
			if b.k == 0 {
				return a
			}
			if b.k >= uint64(w) {
				return c.Const(0, w)
			}
			k := int(b.k)
			return c.ZExt(c.Extract(a, w-1, k), w)
		}
	case OpAShr:
		if b.op == OpConst {
			if b.k == 0 {
				return a
			}
			k := w - 1
			if b.k < uint64(w) {
				k = int(b.k)
			}
			return c.SExt(c.Extract(a, w-1, k), w)
		}
	case OpUlt:
		if a == b {
			return c.False
		}
		if b.op == OpConst && b.k == 0 {
			return c.False
		}
		if a.op == OpConst && a.k == mask(w) {
			return c.False
		}
		// compare through zext
		if a.op == OpZExt && b.op == OpConst {
			if b.k > mask(a.a.w) {
				return c.True
			}
			return c.Bin(OpUlt, a.a, c.Const(b.k, a.a.w))
		}
		if b.op == OpZExt && a.op == OpConst {
			if a.k >= mask(b.a.w) {
				return c.False
			}
			return c.Bin(OpUlt, c.Const(a.k, b.a.w), b.a)
		}
		if a.op == OpZExt && b.op == OpZExt && a.a.w == b.a.w {
			return c.Bin(OpUlt, a.a, b.a)
		}
	case OpUle:
		if a == b {
			return c.True
		}
		return c.Not(c.Bin(OpUlt, b, a))
	case OpSlt:
		if a == b {
			return c.False
		}
		// both operands zero-extended (non-negative): same as unsigned
		if nonNeg(a) && nonNeg(b) {
			return c.Bin(OpUlt, a, b)
		}
	case OpSle:
		if a == b {
			return c.True
		}
		return c.Not(c.Bin(OpSlt, b, a))
	}
	return c.mk(op, rw, a, b, nil, 0, "")
}

func nonNeg(t *Term) bool {
	switch t.op {
	case OpConst:
		return t.k>>(uint(t.w)-1) == 0
	case OpZExt:
		return t.a.w < t.w
	case OpConcat:
		return nonNeg(t.a)
	case OpIte:
		return nonNeg(t.a) && nonNeg(t.b)
	}
	return false
}

func (c *TermCtx) BNot(a *Term) *Term {
	if a.op == OpConst {
		return c.Const(^a.k, a.w)
	}
	if a.op == OpBNot {
		return a.a
	}
	return c.mk(OpBNot, a.w, a, nil, nil, 0, "")
}

func (c *TermCtx) Neg(a *Term) *Term {
	if a.op == OpConst {
		return c.Const(-a.k, a.w)
	}
	return c.mk(OpNeg, a.w, a, nil, nil, 0, "")
}

func (c *TermCtx) Extract(a *Term, hi, lo int) *Term {
	if hi < lo || hi >= a.w || lo < 0 {
		panic(fmt.Sprintf("bad extract [%d:%d] of width %d", hi, lo, a.w))
	}
	w := hi - lo + 1
	if w == a.w {
		return a
	}
	if c.Raw {
		if a.op == OpConst {
			return c.Const(a.k>>uint(lo), w)
		}
		return c.mk(OpExtract, w, a, nil, nil, uint64(hi)<<8|uint64(lo), "")
	}
	switch a.op {
	case OpConst:
		return c.Const(a.k>>uint(lo), w)
	case OpExtract:
		l0 := int(a.k & 0xff)
		return c.Extract(a.a, hi+l0, lo+l0)
	case OpConcat:
		bw := a.b.w
		if hi < bw {
			return c.Extract(a.b, hi, lo)
		}
		if lo >= bw {
			return c.Extract(a.a, hi-bw, lo-bw)
		}
		return c.Concat(c.Extract(a.a, hi-bw, 0), c.Extract(a.b, bw-1, lo))
	case OpZExt:
		iw := a.a.w
		if hi < iw {
			return c.Extract(a.a, hi, lo)
		}
		if lo >= iw {
			return c.Const(0, w)
		}
		return c.ZExt(c.Extract(a.a, iw-1, lo), w)
	case OpSExt:
		iw := a.a.w
		if hi < iw {
			return c.Extract(a.a, hi, lo)
		}
	case OpBAnd, OpBOr, OpBXor:
		// push extract through bitwise ops when one side is const (keeps masks simple)
		if a.b.op == OpConst || a.a.op == OpConst {
			return c.Bin(a.op, c.Extract(a.a, hi, lo), c.Extract(a.b, hi, lo))
		}
	case OpIte:
		if a.a.op == OpConst || a.b.op == OpConst {
			return c.Ite(a.c, c.Extract(a.a, hi, lo), c.Extract(a.b, hi, lo))
		}
	case OpAdd, OpSub, OpMul:
		if lo == 0 {
			// low bits of modular arithmetic only depend on low bits
			x, y := c.Extract(a.a, hi, 0), c.Extract(a.b, hi, 0)
			if x.op == OpConst || y.op == OpConst || (a.a.op == OpZExt && a.a.a.w <= w) || (a.b.op == OpZExt && a.b.a.w <= w) {
				return c.Bin(a.op, x, y)
			}
		}
	}
	return c.mk(OpExtract, w, a, nil, nil, uint64(hi)<<8|uint64(lo), "")
}

func (c *TermCtx) Concat(a, b *Term) *Term {
	w := a.w + b.w
	if w > 64 {
		panic("concat too wide")
	}
	if a.op == OpConst && b.op == OpConst {
		return c.Const(a.k<<uint(b.w)|b.k, w)
	}
	if c.Raw {
		return c.mk(OpConcat, w, a, b, nil, 0, "")
	}
	if a.op == OpConst && a.k == 0 {
		return c.ZExt(b, w)
	}
	// adjacent extracts of one source
	if a.op == OpExtract && b.op == OpExtract && a.a == b.a {
		alo := int(a.k & 0xff)
		bhi := int(b.k >> 8)
		if alo == bhi+1 {
			return c.Extract(a.a, int(a.k>>8), int(b.k&0xff))
		}
	}
	// right-assoc normalisation: (p ++ q) ++ r  ->  p ++ (q ++ r)
	if a.op == OpConcat {
		return c.Concat(a.a, c.Concat(a.b, b))
	}
	// try merging a with head of b when b is concat
	if b.op == OpConcat && a.op == OpExtract && b.a.op == OpExtract && a.a == b.a.a {
		alo := int(a.k & 0xff)
		bhi := int(b.a.k >> 8)
		if alo == bhi+1 {
			return c.Concat(c.Extract(a.a, int(a.k>>8), int(b.a.k&0xff)), b.b)
		}
	}
	if b.op == OpConcat && a.op == OpConst && b.a.op == OpConst {
		return c.Concat(c.Const(a.k<<uint(b.a.w)|b.a.k, a.w+b.a.w), b.b)
	}
	return c.mk(OpConcat, w, a, b, nil, 0, "")
}

func (c *TermCtx) ZExt(a *Term, w int) *Term {
	if w == a.w {
		return a
	}
	if w < a.w {
		panic("zext narrower")
	}
	if a.op == OpConst {
		return c.Const(a.k, w)
	}
	if a.op == OpZExt && !c.Raw {
		return c.ZExt(a.a, w)
	}
	return c.mk(OpZExt, w, a, nil, nil, 0, "")
}

func (c *TermCtx) SExt(a *Term, w int) *Term {
	if w == a.w {
		return a
	}
	if w < a.w {
		panic("sext narrower")
	}
	if a.op == OpConst {
		return c.Const(uint64(sext64(a.k, a.w)), w)
	}
	if c.Raw {
		return c.mk(OpSExt, w, a, nil, nil, 0, "")
	}
	if a.op == OpZExt && a.a.w < a.w {
		return c.ZExt(a.a, w)
	}
	if a.op == OpSExt {
		return c.SExt(a.a, w)
	}
	return c.mk(OpSExt, w, a, nil, nil, 0, "")
}

// Trunc or extend to width w (signed decides the extension).
func (c *TermCtx) Resize(a *Term, w int, signed bool) *Term {
	switch {
	case w == a.w:
		return a
	case w < a.w:
		return c.Extract(a, w-1, 0)
	case signed:
		return c.SExt(a, w)
	default:
		return c.ZExt(a, w)
	}
}

// ---- bit-segment view: a term as a concatenation of (source-slice | zero) segments ----

type seg struct {
	t *Term // nil => zeros
	w int
}

// segs returns the term as segments MSB first, or nil if it is atomic (single opaque segment).
func (c *TermCtx) segs(t *Term, depth int) []seg {
	switch t.op {
	case OpConst:
		if t.k == 0 {
			return []seg{{nil, t.w}}
		}
		return []seg{{t, t.w}}
	case OpZExt:
		return append([]seg{{nil, t.w - t.a.w}}, c.segs(t.a, depth+1)...)
	case OpConcat:
		return append(append([]seg{}, c.segs(t.a, depth+1)...), c.segs(t.b, depth+1)...)
	}
	return []seg{{t, t.w}}
}

func (c *TermCtx) fromSegs(ss []seg) *Term {
	var r *Term
	for i := len(ss) - 1; i >= 0; i-- {
		s := ss[i]
		var t *Term
		if s.t == nil {
			t = c.Const(0, s.w)
		} else {
			t = s.t
		}
		if r == nil {
			r = t
		} else {
			r = c.Concat(t, r)
		}
	}
	return r
}

// split segment list at bit positions so that both lists have equal boundaries.
func (c *TermCtx) alignSegs(x, y []seg) ([]seg, []seg) {
	var rx, ry []seg
	i, j := 0, 0
	var cx, cy seg
	havex, havey := false, false
	for {
		if !havex {
			if i >= len(x) {
				break
			}
			cx = x[i]
			i++
			havex = true
		}
		if !havey {
			if j >= len(y) {
				break
			}
			cy = y[j]
			j++
			havey = true
		}
		switch {
		case cx.w == cy.w:
			rx = append(rx, cx)
			ry = append(ry, cy)
			havex, havey = false, false
		case cx.w > cy.w:
			hi, lo := c.splitSeg(cx, cy.w)
			rx = append(rx, hi)
			ry = append(ry, cy)
			cx = lo
			havey = false
		default:
			hi, lo := c.splitSeg(cy, cx.w)
			ry = append(ry, hi)
			rx = append(rx, cx)
			cy = lo
			havex = false
		}
	}
	return rx, ry
}

// split s into a high part of width hw and the rest.
func (c *TermCtx) splitSeg(s seg, hw int) (seg, seg) {
	lw := s.w - hw
	if s.t == nil {
		return seg{nil, hw}, seg{nil, lw}
	}
	return seg{c.Extract(s.t, s.w-1, lw), hw}, seg{c.Extract(s.t, lw-1, 0), lw}
}

// segOr: a|b when at every aligned position at most one side is non-zero.
func (c *TermCtx) segOr(a, b *Term) *Term {
	sa, sb := c.segs(a, 0), c.segs(b, 0)
	if len(sa) == 1 && sa[0].t != nil && len(sb) == 1 && sb[0].t != nil {
		return nil
	}
	xa, xb := c.alignSegs(sa, sb)
	out := make([]seg, len(xa))
	for i := range xa {
		switch {
		case xa[i].t == nil:
			out[i] = xb[i]
		case xb[i].t == nil:
			out[i] = xa[i]
		case xa[i].t.op == OpConst && xb[i].t.op == OpConst:
			out[i] = seg{c.Const(xa[i].t.k|xb[i].t.k, xa[i].w), xa[i].w}
		default:
			return nil
		}
	}
	return c.fromSegs(out)
}

// segAndConst: a & k where k's bits are runs aligned with segments.
func (c *TermCtx) segAndConst(a *Term, k uint64) *Term {
	sa := c.segs(a, 0)
	if len(sa) == 1 {
		return nil
	}
	// only handle when each segment is fully kept or fully cleared
	out := make([]seg, len(sa))
	pos := a.w
	for i, s := range sa {
		pos -= s.w
		m := (k >> uint(pos)) & mask(s.w)
		switch {
		case s.t == nil || m == 0:
			out[i] = seg{nil, s.w}
		case m == mask(s.w):
			out[i] = s
		case s.t.op == OpConst:
			out[i] = seg{c.Const(s.t.k&m, s.w), s.w}
		default:
			return nil
		}
	}
	return c.fromSegs(out)
}

// ---------- evaluation under a model ----------

type Model map[string]uint64

func (t *Term) Eval(m Model, memo map[*Term]uint64) uint64 {
	if t.op == OpConst {
		return t.k
	}
	if v, ok := memo[t]; ok {
		return v
	}
	var r uint64
	switch t.op {
	case OpVar:
		r = m[t.name] & mask1(t.w)
	case OpNot:
		r = 1 - t.a.Eval(m, memo)
	case OpAnd:
		r = t.a.Eval(m, memo) & t.b.Eval(m, memo)
	case OpOr:
		r = t.a.Eval(m, memo) | t.b.Eval(m, memo)
	case OpIte:
		if t.c.Eval(m, memo) != 0 {
			r = t.a.Eval(m, memo)
		} else {
			r = t.b.Eval(m, memo)
		}
	case OpEq:
		r = b2u(t.a.Eval(m, memo) == t.b.Eval(m, memo))
	case OpBNot:
		r = ^t.a.Eval(m, memo) & mask(t.w)
	case OpNeg:
		r = -t.a.Eval(m, memo) & mask(t.w)
	case OpExtract:
		hi, lo := int(t.k>>8), int(t.k&0xff)
		r = (t.a.Eval(m, memo) >> uint(lo)) & mask(hi-lo+1)
	case OpConcat:
		r = t.a.Eval(m, memo)<<uint(t.b.w) | t.b.Eval(m, memo)
	case OpZExt:
		r = t.a.Eval(m, memo)
	case OpSExt:
		r = uint64(sext64(t.a.Eval(m, memo), t.a.w)) & mask(t.w)
	default:
		r = evalBin(t.op, t.a.w, t.a.Eval(m, memo), t.b.Eval(m, memo))
	}
	memo[t] = r
	return r
}

func mask1(w int) uint64 {
	if w == 0 {
		return 1
	}
	return mask(w)
}

// Vars collects the variables of t into set.
func (t *Term) Vars(set map[*Term]bool, seen map[*Term]bool) {
	if t == nil || seen[t] {
		return
	}
	seen[t] = true
	if t.op == OpVar {
		set[t] = true
		return
	}
	t.a.Vars(set, seen)
	t.b.Vars(set, seen)
	t.c.Vars(set, seen)
}

// ---------- SMT-LIB printing ----------

func sortOf(w int) string {
	if w == 0 {
		return "Bool"
	}
	return fmt.Sprintf("(_ BitVec %d)", w)
}

func smtName(n string) string { return "|" + n + "|" }

// SMT prints t as a self-contained expression, sharing repeated sub-terms through let.
func (t *Term) SMT() string {
	refs := map[*Term]int{}
	var order []*Term
	var visit func(x *Term)
	visit = func(x *Term) {
		if x == nil {
			return
		}
		refs[x]++
		if refs[x] > 1 {
			return
		}
		visit(x.a)
		visit(x.b)
		visit(x.c)
		order = append(order, x)
	}
	visit(t)
	names := map[*Term]string{}
	var sb strings.Builder
	nlet := 0
	var pr func(x *Term) string
	pr = func(x *Term) string {
		if n, ok := names[x]; ok {
			return n
		}
		switch x.op {
		case OpConst:
			if x.w == 0 {
				if x.k != 0 {
					return "true"
				}
				return "false"
			}
			return fmt.Sprintf("(_ bv%d %d)", x.k, x.w)
		case OpVar:
			return smtName(x.name)
		case OpIte:
			return "(ite " + pr(x.c) + " " + pr(x.a) + " " + pr(x.b) + ")"
		case OpExtract:
			return fmt.Sprintf("((_ extract %d %d) %s)", x.k>>8, x.k&0xff, pr(x.a))
		case OpZExt:
			return fmt.Sprintf("((_ zero_extend %d) %s)", x.w-x.a.w, pr(x.a))
		case OpSExt:
			return fmt.Sprintf("((_ sign_extend %d) %s)", x.w-x.a.w, pr(x.a))
		case OpNot, OpBNot, OpNeg:
			return "(" + opNames[x.op] + " " + pr(x.a) + ")"
		default:
			return "(" + opNames[x.op] + " " + pr(x.a) + " " + pr(x.b) + ")"
		}
	}
	for _, x := range order {
		if x != t && refs[x] > 1 && x.op != OpConst && x.op != OpVar {
			s := pr(x)
			n := fmt.Sprintf("?s%d", x.id)
			fmt.Fprintf(&sb, "(let ((%s %s)) ", n, s)
			names[x] = n
			nlet++
		}
	}
	sb.WriteString(pr(t))
	for i := 0; i < nlet; i++ {
		sb.WriteByte(')')
	}
	return sb.String()
}

func (t *Term) String() string {
	if t == nil {
		return "<nil>"
	}
	if t.op == OpConst {
		if t.w == 0 {
			return fmt.Sprint(t.k != 0)
		}
		return fmt.Sprintf("%d:%d", t.k, t.w)
	}
	s := t.SMT()
	if len(s) > 200 {
		s = s[:200] + "..."
	}
	return s
}

// Rebuild re-applies t's operator to new operands (used for substitution of known values).
func (c *TermCtx) Rebuild(t *Term, a, b, cc *Term) *Term {
	if a == t.a && b == t.b && cc == t.c {
		return t
	}
	switch t.op {
	case OpNot:
		return c.Not(a)
	case OpAnd:
		return c.And(a, b)
	case OpOr:
		return c.Or(a, b)
	case OpIte:
		return c.Ite(cc, a, b)
	case OpEq:
		return c.Eq(a, b)
	case OpBNot:
		return c.BNot(a)
	case OpNeg:
		return c.Neg(a)
	case OpExtract:
		return c.Extract(a, int(t.k>>8), int(t.k&0xff))
	case OpConcat:
		return c.Concat(a, b)
	case OpZExt:
		return c.ZExt(a, t.w)
	case OpSExt:
		return c.SExt(a, t.w)
	case OpConst, OpVar:
		return t
	}
	return c.Bin(t.op, a, b)
}
