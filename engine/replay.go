package main

// Native replay: the harness is compiled against the real build (go test -c -overlay) with intrinsic bodies that
// read the recorded nondet vector; a counterexample counts only if the native run shows the same failure.

import (
	"bytes"
	"context"
	"encoding/json"
	"fmt"
	"os"
	"os/exec"
	"path/filepath"
	"strconv"
	"strings"
	"time"
)

type ReplayFile struct {
	Property string            `json:"property"`
	Harness  string            `json:"harness"`
	Args     []string          `json:"args"`
	Files    []string          `json:"files"`
	Kind     string            `json:"kind"`
	ID       string            `json:"id"`
	Msg      string            `json:"msg"`
	Nondet   []NondetVal       `json:"nondet"`
	Observe  map[string]string `json:"observe,omitempty"`
	Stack    []string          `json:"stack,omitempty"`
	Sched    []string          `json:"schedule,omitempty"`
	Events   []string          `json:"events,omitempty"`
	Dec      string            `json:"decisions,omitempty"`
	Native   string            `json:"native_result,omitempty"`
}

func workDir() string {
	d := filepath.Join(verifDir, ".work", strconv.Itoa(os.Getpid()))
	os.MkdirAll(d, 0o755)
	return d
}

func caseKey(harness string, args []string) string {
	return harness + "(" + strings.Join(args, ",") + ")"
}

func goLiteral(a string) string {
	if a == "true" || a == "false" {
		return a
	}
	if _, err := strconv.ParseInt(a, 0, 64); err == nil {
		return a
	}
	return strconv.Quote(a)
}

type NativeBin struct {
	path string
	race bool
}

// buildNative compiles the replay test binary for the given harness file sets and (harness,args) cases.
func buildNative(files []string, cases map[string][2]interface{}, race bool, rewriteProg *Program) (*NativeBin, error) {
	wd := workDir()
	ov, err := harnessOverlay(files, true)
	if err != nil {
		return nil, err
	}
	tag := fmt.Sprintf("%d", time.Now().UnixNano())
	dir := filepath.Join(wd, "native-"+tag)
	os.MkdirAll(dir, 0o755)
	replace := map[string]string{}
	for virt, content := range ov {
		real := filepath.Join(dir, filepath.Base(virt))
		if err := os.WriteFile(real, content, 0o644); err != nil {
			return nil, err
		}
		replace[virt] = real
	}
	var sb strings.Builder
	sb.WriteString("package go9p\n\nimport (\n\t\"fmt\"\n\t\"os\"\n\t\"testing\"\n)\n\nfunc TestVerifReplay(t *testing.T) {\n\tvxLoadReplay(os.Getenv(\"VX_REPLAY\"))\n\tswitch os.Getenv(\"VX_CASE\") {\n")
	for key, c := range cases {
		h := c[0].(string)
		args := c[1].([]string)
		lits := make([]string, len(args))
		for i, a := range args {
			lits[i] = goLiteral(a)
		}
		fmt.Fprintf(&sb, "\tcase %q:\n\t\t%s(%s)\n", key, h, strings.Join(lits, ", "))
	}
	sb.WriteString("\tdefault:\n\t\tt.Fatalf(\"unknown case %q\", os.Getenv(\"VX_CASE\"))\n\t}\n\tfmt.Println(\"VX-END\")\n}\n")
	testFile := filepath.Join(dir, "zz_verif_replay_test.go")
	os.WriteFile(testFile, []byte(sb.String()), 0o644)
	replace[filepath.Join(repoDir, "zz_verif_replay_test.go")] = testFile
	if rewriteProg != nil {
		if err := rewriteStubCalls(rewriteProg, dir, replace); err != nil {
			return nil, err
		}
	}
	ovb, _ := json.Marshal(map[string]interface{}{"Replace": replace})
	ovFile := filepath.Join(dir, "overlay.json")
	os.WriteFile(ovFile, ovb, 0o644)
	bin := filepath.Join(dir, "replay.test")
	args := []string{"test", "-c", "-vet=off", "-overlay", ovFile, "-o", bin}
	if race {
		args = append(args, "-race")
	}
	args = append(args, ".")
	ctx, cancel := context.WithTimeout(context.Background(), 5*time.Minute)
	defer cancel()
	cmd := exec.CommandContext(ctx, "go", args...)
	cmd.Dir = repoDir
	cmd.Env = loadEnv()
	out, err := cmd.CombinedOutput()
	if err != nil {
		return nil, fmt.Errorf("native build failed: %v\n%s", err, out)
	}
	return &NativeBin{path: bin, race: race}, nil
}

func (nb *NativeBin) run(caseKey string, replayPath string, timeout time.Duration) (string, error) {
	ctx, cancel := context.WithTimeout(context.Background(), timeout)
	defer cancel()
	cmd := exec.CommandContext(ctx, nb.path, "-test.run", "^TestVerifReplay$", "-test.count=1", "-test.timeout", timeout.String())
	cmd.Dir = repoDir
	cmd.Env = append(os.Environ(), "VX_REPLAY="+replayPath, "VX_CASE="+caseKey, "GOMEMLIMIT=3GiB")
	if nb.race {
		cmd.Env = append(cmd.Env, "VX_NOLOCK=1")
	}
	var buf bytes.Buffer
	cmd.Stdout = &buf
	cmd.Stderr = &buf
	err := cmd.Run()
	if ctx.Err() != nil {
		return buf.String(), fmt.Errorf("native run timed out")
	}
	return buf.String(), err
}

type nativeOutcome struct {
	Panic    string
	Asserts  []string
	Observe  map[string]string
	Ended    bool
	Diverged string
	Race     bool
	Raw      string
}

func parseNative(out string) nativeOutcome {
	o := nativeOutcome{Observe: map[string]string{}, Raw: out}
	for _, line := range strings.Split(out, "\n") {
		switch {
		case strings.HasPrefix(line, "VX-ASSERT-FAIL "):
			o.Asserts = append(o.Asserts, strings.TrimPrefix(line, "VX-ASSERT-FAIL "))
		case strings.HasPrefix(line, "VX-OBSERVE "):
			kv := strings.SplitN(strings.TrimPrefix(line, "VX-OBSERVE "), "=", 2)
			if len(kv) == 2 {
				o.Observe[kv[0]] = kv[1]
			}
		case strings.HasPrefix(line, "VX-END"):
			o.Ended = true
		case strings.HasPrefix(line, "VX-DIVERGE"):
			if o.Diverged == "" {
				o.Diverged = line
			}
		case strings.HasPrefix(line, "panic:") || strings.HasPrefix(line, "fatal error:"):
			if o.Panic == "" {
				o.Panic = line
			}
		case strings.Contains(line, "WARNING: DATA RACE"):
			o.Race = true
		}
	}
	return o
}

// confirm decides whether the native outcome reproduces the finding.
func confirmFinding(f *Finding, o nativeOutcome) (bool, string) {
	if o.Diverged != "" {
		return false, "native run diverged: " + o.Diverged
	}
	switch f.Kind {
	case "PANIC":
		if o.Panic != "" {
			return true, o.Panic
		}
		return false, "native run did not panic"
	case "ASSERT":
		for _, a := range o.Asserts {
			if a == f.ID {
				return true, "native assertion " + a + " failed"
			}
		}
		if o.Panic != "" {
			return false, "native run panicked instead: " + o.Panic
		}
		return false, "native assertion did not fail"
	case "RACE":
		if o.Race {
			// the report must involve one of the library functions of the finding (not harness bookkeeping)
			tops := raceTopFrames(o.Raw)
			for _, site := range strings.Split(f.ID, " <-> ") {
				if fn := runtimeFuncName(site); fn != "" && tops[fn] {
					return true, "go race detector reported a data race in " + fn
				}
			}
			return false, "race detector reported a different race"
		}
		return false, "race detector silent"
	}
	return false, "kind " + f.Kind + " has no native confirmation"
}

func writeReplay(prop string, n int, spec RunSpec, f *Finding, native string) string {
	dir := filepath.Join(verifDir, "replays")
	os.MkdirAll(dir, 0o755)
	rf := ReplayFile{Property: prop, Harness: f.Harness, Args: spec.Args, Files: spec.Files, Kind: f.Kind, ID: f.ID, Msg: f.Msg,
		Nondet: f.Nondet, Observe: f.Observe, Stack: f.Stack, Sched: f.Sched, Events: f.Events, Dec: decString(f.Dec), Native: native}
	b, _ := json.MarshalIndent(rf, "", " ")
	path := filepath.Join(dir, fmt.Sprintf("%s-%d.json", prop, n))
	os.WriteFile(path, b, 0o644)
	return path
}

func writeTempReplay(nd []NondetVal, harness string) string {
	wd := workDir()
	f, _ := os.CreateTemp(wd, "vec-*.json")
	defer f.Close()
	json.NewEncoder(f).Encode(map[string]interface{}{"harness": harness, "nondet": nd})
	return f.Name()
}


// runtimeFuncName converts "(*pkg/path.T).m(file.go:12)" (ssa naming) to the runtime's "pkg/path.(*T).m".
func runtimeFuncName(site string) string {
	if i := strings.LastIndex(site, "("); i > 0 && strings.HasSuffix(site, ")") {
		site = site[:i]
	}
	if strings.HasPrefix(site, "(*") {
		j := strings.Index(site, ")")
		if j < 0 {
			return ""
		}
		inner := site[2:j] // pkg/path.T
		k := strings.LastIndex(inner, ".")
		if k < 0 {
			return ""
		}
		return inner[:k] + ".(*" + inner[k+1:] + ")" + site[j+1:]
	}
	if strings.HasPrefix(site, "(") {
		j := strings.Index(site, ")")
		if j < 0 {
			return ""
		}
		return site[1:j] + site[j+1:]
	}
	return site
}

// raceTopFrames: the innermost function of every access reported by the Go race detector.
func raceTopFrames(out string) map[string]bool {
	tops := map[string]bool{}
	lines := strings.Split(out, "\n")
	for i, l := range lines {
		t := strings.TrimSpace(l)
		if (strings.HasPrefix(t, "Read at ") || strings.HasPrefix(t, "Write at ") || strings.HasPrefix(t, "Previous read at ") || strings.HasPrefix(t, "Previous write at ")) && i+1 < len(lines) {
			fn := strings.TrimSpace(lines[i+1])
			if j := strings.LastIndex(fn, "("); j > 0 {
				fn = fn[:j]
			}
			tops[fn] = true
		}
	}
	return tops
}
