package main

func rewriteStubCalls(dir string, replace map[string]string, ov map[string][]byte) error { return nil }
