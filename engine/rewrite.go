package main

// Native replays of model-FS harnesses: the repo's sources are compiled from copies in which every call of a
// std function that the harness stubs (vxstub_*) is redirected to that stub, so that the native run meets the
// same environment model as the symbolic run. Generated from the current tree on every replay.

import (
	"bytes"
	"fmt"
	"go/ast"
	"go/format"
	"go/types"
	"os"
	"path/filepath"
	"strings"
)

func rewriteStubCalls(p *Program, dir string, replace map[string]string) error {
	if p == nil || p.gopkg == nil {
		return fmt.Errorf("rewrite: no loaded package")
	}
	if p.rewritten != nil {
		// the ASTs were rewritten in place by an earlier call: reuse its output
		for fname, content := range p.rewritten {
			out := filepath.Join(dir, "rw_"+filepath.Base(fname))
			if err := os.WriteFile(out, content, 0o644); err != nil {
				return err
			}
			replace[fname] = out
		}
		return nil
	}
	p.rewritten = map[string][]byte{}
	info := p.gopkg.TypesInfo
	for i, file := range p.gopkg.Syntax {
		fname := p.gopkg.CompiledGoFiles[i]
		base := filepath.Base(fname)
		if strings.HasPrefix(base, "zz_verif_") || strings.HasSuffix(base, "_test.go") {
			continue
		}
		var keep []string
		changed := false
		ast.Inspect(file, func(n ast.Node) bool {
			call, ok := n.(*ast.CallExpr)
			if !ok {
				return true
			}
			sel, ok := call.Fun.(*ast.SelectorExpr)
			if !ok {
				return true
			}
			var fn *types.Func
			isMethod := false
			if s, ok := info.Selections[sel]; ok {
				if s.Kind() != types.MethodVal {
					return true
				}
				fn, _ = s.Obj().(*types.Func)
				isMethod = true
			} else if o, ok := info.Uses[sel.Sel].(*types.Func); ok {
				fn = o
			}
			if fn == nil || fn.Pkg() == nil {
				return true
			}
			stub, ok := p.stubFns[mangle(fn.FullName())]
			if !ok {
				return true
			}
			name := stub.Name()
			if isMethod {
				recv := fn.Type().(*types.Signature).Recv().Type()
				if _, isIface := recv.Underlying().(*types.Interface); isIface {
					return true
				}
				call.Args = append([]ast.Expr{sel.X}, call.Args...)
				tn := recv
				if pt, ok := recv.(*types.Pointer); ok {
					tn = pt.Elem()
				}
				if named, ok := tn.(*types.Named); ok {
					keep = append(keep, fmt.Sprintf("var _ *%s.%s", pkgIdent(file, named.Obj().Pkg().Path()), named.Obj().Name()))
				}
			} else {
				if id, ok := sel.X.(*ast.Ident); ok {
					keep = append(keep, fmt.Sprintf("var _ = %s.%s", id.Name, fn.Name()))
				}
			}
			call.Fun = ast.NewIdent(name)
			changed = true
			return true
		})
		if !changed {
			continue
		}
		var buf bytes.Buffer
		if err := format.Node(&buf, p.fset, file); err != nil {
			return err
		}
		seen := map[string]bool{}
		for _, k := range keep {
			if !seen[k] && !strings.Contains(k, "<nil>") {
				seen[k] = true
				buf.WriteString("\n" + k + "\n")
			}
		}
		out := filepath.Join(dir, "rw_"+base)
		if err := os.WriteFile(out, buf.Bytes(), 0o644); err != nil {
			return err
		}
		replace[fname] = out
		p.rewritten[fname] = append([]byte{}, buf.Bytes()...)
	}
	return nil
}

// pkgIdent: the local name under which file imports path.
func pkgIdent(file *ast.File, path string) string {
	for _, im := range file.Imports {
		if strings.Trim(im.Path.Value, `"`) == path {
			if im.Name != nil {
				return im.Name.Name
			}
			return path[strings.LastIndex(path, "/")+1:]
		}
	}
	return "<nil>"
}
