package main

// One long-lived SMT solver process (z3 -in / z3-new -in / cvc5 --incremental) driven over pipes.

import (
	"bufio"
	"fmt"
	"io"
	"os/exec"
	"strconv"
	"strings"
	"time"
)

type Verdict int

const (
	Sat Verdict = iota
	Unsat
	Unknown
)

func (v Verdict) String() string { return [...]string{"sat", "unsat", "unknown"}[v] }

type Solver struct {
	kind     string
	cmd      *exec.Cmd
	in       io.WriteCloser
	bw       *bufio.Writer
	out      *bufio.Reader
	declared []map[string]int // per level: var name -> width
	Queries  [3]int
	Time     time.Duration
	Errors   []string
	timeoutS int
	log      io.Writer
}

func NewSolver(kind string, timeoutS int) (*Solver, error) {
	var cmd *exec.Cmd
	switch kind {
	case "z3":
		cmd = exec.Command("/usr/bin/z3", "-in", fmt.Sprintf("-t:%d", timeoutS*1000))
	case "z3-new":
		cmd = exec.Command("z3-new", "-in", fmt.Sprintf("-t:%d", timeoutS*1000))
	case "cvc5":
		cmd = exec.Command("cvc5", "--incremental", "--lang=smt2", fmt.Sprintf("--tlimit-per=%d", timeoutS*1000))
	default:
		return nil, fmt.Errorf("unknown solver %q", kind)
	}
	in, err := cmd.StdinPipe()
	if err != nil {
		return nil, err
	}
	out, err := cmd.StdoutPipe()
	if err != nil {
		return nil, err
	}
	cmd.Stderr = cmd.Stdout
	if err := cmd.Start(); err != nil {
		return nil, err
	}
	s := &Solver{kind: kind, cmd: cmd, in: in, bw: bufio.NewWriterSize(in, 1<<16), out: bufio.NewReaderSize(out, 1<<16), timeoutS: timeoutS}
	s.declared = []map[string]int{{}}
	s.send("(set-option :produce-models true)")
	if kind == "cvc5" {
		s.send("(set-logic QF_BV)")
	}
	return s, nil
}

func (s *Solver) Close() {
	if s == nil || s.cmd == nil {
		return
	}
	s.bw.Flush()
	s.in.Close()
	done := make(chan struct{})
	go func() { s.cmd.Wait(); close(done) }()
	select {
	case <-done:
	case <-time.After(2 * time.Second):
		s.cmd.Process.Kill()
	}
	s.cmd = nil
}

func (s *Solver) send(line string) {
	if s.log != nil {
		fmt.Fprintln(s.log, line)
	}
	s.bw.WriteString(line)
	s.bw.WriteByte('\n')
}

// roundtrip sends cmd and returns all output up to a marker echo.
func (s *Solver) roundtrip(cmd string) string {
	s.send(cmd)
	s.send(`(echo "<<vxdone>>")`)
	s.bw.Flush()
	var sb strings.Builder
	for {
		line, err := s.out.ReadString('\n')
		if strings.Contains(line, "<<vxdone>>") {
			break
		}
		sb.WriteString(line)
		if err != nil {
			s.Errors = append(s.Errors, "solver died: "+err.Error())
			break
		}
	}
	r := sb.String()
	if strings.Contains(r, "(error") {
		s.Errors = append(s.Errors, strings.TrimSpace(r))
	}
	return r
}

func (s *Solver) Reset() {
	s.send("(reset)")
	s.send("(set-option :produce-models true)")
	if s.kind == "cvc5" {
		s.send("(set-logic QF_BV)")
	}
	s.declared = []map[string]int{{}}
}

func (s *Solver) Push() {
	s.send("(push 1)")
	s.declared = append(s.declared, map[string]int{})
}

func (s *Solver) Pop() {
	s.send("(pop 1)")
	s.declared = s.declared[:len(s.declared)-1]
}

func (s *Solver) isDeclared(n string) bool {
	for _, m := range s.declared {
		if _, ok := m[n]; ok {
			return true
		}
	}
	return false
}

func (s *Solver) declareVars(t *Term) {
	set := map[*Term]bool{}
	t.Vars(set, map[*Term]bool{})
	for v := range set {
		if !s.isDeclared(v.name) {
			s.send(fmt.Sprintf("(declare-const %s %s)", smtName(v.name), sortOf(v.w)))
			s.declared[len(s.declared)-1][v.name] = v.w
		}
	}
}

func (s *Solver) Assert(t *Term) {
	if t.op == OpConst && t.k != 0 {
		return
	}
	s.declareVars(t)
	s.send("(assert " + t.SMT() + ")")
}

func (s *Solver) Check() Verdict {
	t0 := time.Now()
	r := strings.TrimSpace(s.roundtrip("(check-sat)"))
	s.Time += time.Since(t0)
	var v Verdict
	switch {
	case strings.HasPrefix(r, "sat"):
		v = Sat
	case strings.HasPrefix(r, "unsat"):
		v = Unsat
	default:
		v = Unknown
		if !strings.HasPrefix(r, "unknown") && !strings.HasPrefix(r, "timeout") {
			s.Errors = append(s.Errors, "unexpected check-sat answer: "+r)
		}
	}
	s.Queries[v]++
	return v
}

// CheckWith: is (current assertions ∧ t) satisfiable? Leaves the context unchanged.
// On Sat, a full model of all declared variables is returned.
func (s *Solver) CheckWith(t *Term, wantModel bool) (Verdict, Model) {
	s.Push()
	s.Assert(t)
	v := s.Check()
	var m Model
	if v == Sat && wantModel {
		m = s.GetModel()
	}
	s.Pop()
	return v, m
}

// GetModel returns values for every declared variable (after a Sat answer).
func (s *Solver) GetModel() Model {
	m := Model{}
	var names []string
	widths := map[string]int{}
	for _, lvl := range s.declared {
		for n, w := range lvl {
			names = append(names, n)
			widths[n] = w
		}
	}
	if len(names) == 0 {
		return m
	}
	for i := 0; i < len(names); i += 200 {
		j := i + 200
		if j > len(names) {
			j = len(names)
		}
		var sb strings.Builder
		sb.WriteString("(get-value (")
		for _, n := range names[i:j] {
			sb.WriteString(smtName(n))
			sb.WriteByte(' ')
		}
		sb.WriteString("))")
		r := s.roundtrip(sb.String())
		parseValues(r, m)
	}
	return m
}

// parseValues parses "((|a| #x0f) (|b| true) (|c| (_ bv3 8)))".
func parseValues(r string, m Model) {
	i := 0
	n := len(r)
	for i < n {
		// find "(|"
		j := strings.Index(r[i:], "(|")
		if j < 0 {
			return
		}
		i += j + 2
		e := strings.IndexByte(r[i:], '|')
		if e < 0 {
			return
		}
		name := r[i : i+e]
		i += e + 1
		for i < n && (r[i] == ' ' || r[i] == '\n') {
			i++
		}
		// value up to matching ')'
		depth := 0
		st := i
		for i < n {
			if r[i] == '(' {
				depth++
			} else if r[i] == ')' {
				if depth == 0 {
					break
				}
				depth--
			}
			i++
		}
		val := strings.TrimSpace(r[st:i])
		switch {
		case val == "true":
			m[name] = 1
		case val == "false":
			m[name] = 0
		case strings.HasPrefix(val, "#x"):
			v, _ := strconv.ParseUint(val[2:], 16, 64)
			m[name] = v
		case strings.HasPrefix(val, "#b"):
			v, _ := strconv.ParseUint(val[2:], 2, 64)
			m[name] = v
		case strings.HasPrefix(val, "(_ bv"):
			f := strings.Fields(val[5:])
			v, _ := strconv.ParseUint(f[0], 10, 64)
			m[name] = v
		}
	}
}
