package main

func cmdCheck(args []string) int    { return 3 }
func cmdSelftest(args []string) int { return 3 }
