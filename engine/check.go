package main

import (
	"encoding/json"
	"fmt"
	"os"
	"path/filepath"
	"sort"
	"strconv"
	"strings"
	"time"
)

type PropConfig struct {
	Property    string    `json:"property"`
	Assumptions []string  `json:"assumptions"`
	Quick       []RunSpec `json:"quick"`
	Thorough    []RunSpec `json:"thorough"`
	RewriteOS   bool      `json:"rewrite_os,omitempty"`
	Witnesses   int       `json:"witnesses,omitempty"`
	Outside     []string  `json:"outside,omitempty"`
}

type KnownFinding struct {
	Property string            `json:"property"`
	Status   string            `json:"status"` // known | fixed
	Harness  string            `json:"harness,omitempty"`
	Kind     string            `json:"kind,omitempty"`
	ID       string            `json:"id,omitempty"`
	IDPrefix string            `json:"id_prefix,omitempty"`
	Observe  map[string]string `json:"observe,omitempty"`
	What     string            `json:"what"`
	Commit   string            `json:"commit,omitempty"`
}

type KnownFile struct {
	Findings []KnownFinding `json:"findings"`
}

func (k *KnownFinding) matches(prop string, f *Finding) bool {
	if k.Status != "known" || k.Property != prop {
		return false
	}
	if k.Kind != "" && k.Kind != f.Kind {
		return false
	}
	if k.Harness != "" && k.Harness != f.Harness {
		return false
	}
	if k.ID != "" && k.ID != f.ID {
		return false
	}
	if k.IDPrefix != "" && !strings.HasPrefix(f.ID, k.IDPrefix) {
		return false
	}
	for n, v := range k.Observe {
		if f.Observe[n] != v {
			return false
		}
	}
	return true
}

type checkedFinding struct {
	spec    RunSpec
	f       *Finding
	status  string // violation | known | mismatch | inconclusive
	native  string
	replay  string
	knownIx int
}

func cmdCheck(args []string) int {
	if len(args) < 2 {
		fmt.Fprintln(os.Stderr, "usage: gosym check <property> quick|thorough|replay <file>")
		return 2
	}
	prop := args[0]
	tier := args[1]
	if tier == "replay" {
		if len(args) < 3 {
			return 2
		}
		return cmdReplay(prop, args[2])
	}
	if v := os.Getenv("VERIF_TIER"); v == "quick" || v == "thorough" {
		tier = v
	}
	seed := int64(1)
	if v := os.Getenv("VERIF_SEED"); v != "" {
		if n, err := strconv.ParseInt(v, 10, 64); err == nil {
			seed = n
		}
	}
	solver := "z3"
	if v := os.Getenv("VERIF_SOLVER"); v != "" {
		solver = v
	}
	workers := 16
	if v := os.Getenv("VERIF_WORKERS"); v != "" {
		if n, err := strconv.Atoi(v); err == nil && n > 0 {
			workers = n
		}
	}
	t0 := time.Now()
	defer os.RemoveAll(filepath.Join(verifDir, ".work", strconv.Itoa(os.Getpid())))

	var cfg PropConfig
	b, err := os.ReadFile(filepath.Join(verifDir, "props", prop+".json"))
	if err != nil {
		fmt.Println("no property config:", err)
		return 3
	}
	if err := json.Unmarshal(b, &cfg); err != nil {
		fmt.Println("bad property config:", err)
		return 3
	}
	// replay files of earlier runs of this property are obsolete
	if old, _ := filepath.Glob(filepath.Join(verifDir, "replays", prop+"-*.json")); len(old) > 0 {
		for _, f := range old {
			os.Remove(f)
		}
	}
	var known KnownFile
	if b, err := os.ReadFile(filepath.Join(verifDir, "known_findings.json")); err == nil {
		json.Unmarshal(b, &known)
	}
	runs := cfg.Quick
	if tier == "thorough" {
		runs = cfg.Thorough
		if len(runs) == 0 {
			runs = cfg.Quick
		}
	}
	progs := map[string]*Program{}
	var results []*RunResult
	var problems []string
	unlisted := 0
	for ri, spec := range runs {
		// a tree that already shows violations need not be explored to the end: report what was found
		if unlisted > 0 && time.Since(t0) > 3*time.Minute {
			fmt.Printf("skipping the remaining %d runs: violations were already found\n", len(runs)-ri)
			break
		}
		key := strings.Join(spec.Files, ",")
		p, ok := progs[key]
		if !ok {
			var err error
			p, err = loadProgram(spec.Files)
			if err != nil {
				fmt.Println(err)
				problems = append(problems, err.Error())
				continue
			}
			progs[key] = p
		}
		res := runHarness(p, spec, solver, workers, seed)
		results = append(results, res)
		fmt.Printf("run %s%v: paths=%d vcs=%d queries=%v findings=%d wall=%.1fs exhaustive=%v\n", spec.Harness, spec.Args, res.Paths, res.VCs, res.Queries, len(res.Findings), res.WallS, res.Exhaustive)
		for _, f := range res.Findings {
			isKnown := false
			for i := range known.Findings {
				if known.Findings[i].matches(prop, f) {
					isKnown = true
				}
			}
			if !isKnown && f.Kind != "UNWIND" && f.Kind != "ENGINE" {
				unlisted++
			}
		}
		for _, s := range res.Inconcl {
			if unlisted > 0 && strings.HasPrefix(s, "INCOMPLETE") {
				continue // the early stop after violations is not a problem of its own
			}
			problems = append(problems, spec.Harness+": "+s)
		}
		for _, s := range res.EngineErr {
			problems = append(problems, spec.Harness+": ENGINE "+s)
		}
		if !res.Exhaustive && len(res.Inconcl) == 0 && len(res.EngineErr) == 0 && unlisted == 0 {
			problems = append(problems, spec.Harness+": INCOMPLETE")
		}
		for _, r := range spec.Reach {
			if res.Reached[r] == 0 {
				problems = append(problems, fmt.Sprintf("%s%v: VACUOUS reachability witness %q never reached", spec.Harness, spec.Args, r))
			}
		}
	}

	// classify findings
	var cfs []*checkedFinding
	for _, res := range results {
		for _, f := range res.Findings {
			cf := &checkedFinding{spec: res.Spec, f: f, knownIx: -1}
			switch f.Kind {
			case "UNWIND", "ENGINE":
				cf.status = "inconclusive"
				problems = append(problems, fmt.Sprintf("%s: %s %s: %s", f.Harness, f.Kind, f.ID, f.Msg))
			default:
				for i := range known.Findings {
					if known.Findings[i].matches(prop, f) {
						cf.status = "known"
						cf.knownIx = i
						break
					}
				}
			}
			cfs = append(cfs, cf)
		}
	}

	// native confirmation of unlisted findings + witness replays
	cases := map[string][2]interface{}{}
	fileSet := map[string]bool{}
	for _, spec := range runs {
		cases[caseKey(spec.Harness, spec.Args)] = [2]interface{}{spec.Harness, spec.Args}
		for _, f := range spec.Files {
			fileSet[f] = true
		}
	}
	var files []string
	for f := range fileSet {
		files = append(files, f)
	}
	sort.Strings(files)
	needNative := false
	needRace := false
	for _, cf := range cfs {
		if cf.status == "" {
			needNative = true
			if cf.f.Kind == "RACE" {
				needRace = true
			}
		}
	}
	nwit := cfg.Witnesses
	if nwit < 0 {
		nwit = 0
	} else if nwit == 0 {
		nwit = 3
		if tier == "thorough" {
			nwit = 12
		}
	}
	var bin, raceBin *NativeBin
	validated := 0
	if (needNative || nwit > 0) && len(results) > 0 {
		var err error
		var rwProg *Program
		if cfg.RewriteOS {
			// the rewrite needs type information for every file set in play: load once with all of them
			rwProg, err = loadProgram(files)
			if err != nil {
				problems = append(problems, "NATIVE-BUILD-ERROR: "+err.Error())
			}
		}
		bin, err = buildNative(files, cases, false, rwProg)
		if err != nil {
			problems = append(problems, "NATIVE-BUILD-ERROR: "+err.Error())
		}
		if needRace {
			raceBin, err = buildNative(files, cases, true, rwProg)
			if err != nil {
				problems = append(problems, "NATIVE-BUILD-ERROR(race): "+err.Error())
			}
		}
	}
	nreplay := 0
	// schedule-dependent findings are re-run natively many times; keep the total effort bounded
	schedBudget := 150 * time.Second
	for _, cf := range cfs {
		if cf.status != "" {
			continue
		}
		f := cf.f
		if f.EngineOnly {
			nreplay++
			cf.status = "violation"
			cf.native = "engine-observable fact (locks held by the calling goroutine): not checkable natively"
			cf.replay = writeReplay(prop, nreplay, cf.spec, f, cf.native)
			continue
		}
		nb := bin
		if f.Kind == "RACE" {
			nb = raceBin
		}
		if nb == nil {
			cf.status = "mismatch"
			cf.native = "no native binary"
			continue
		}
		vec := writeTempReplay(f.Nondet, f.Harness)
		reps := 1
		if f.Kind == "RACE" {
			reps = 30
		} else if f.Threads > 1 {
			reps = 15 // the counterexample includes a goroutine schedule, which a native run only meets by chance
		}
		ok := false
		why := ""
		for r := 0; r < reps && !ok; r++ {
			perRun := 60 * time.Second
			if reps > 1 {
				if schedBudget <= 0 {
					why = "native stress budget exhausted before this finding was tried"
					break
				}
				perRun = 20 * time.Second
			}
			tr := time.Now()
			out, _ := nb.run(caseKey(cf.spec.Harness, cf.spec.Args), vec, perRun)
			if reps > 1 {
				schedBudget -= time.Since(tr)
			}
			o := parseNative(out)
			ok, why = confirmFinding(f, o)
			if os.Getenv("VX_DEBUG") != "" {
				fmt.Printf("DEBUG rep %d ok=%v why=%s races=%d len=%d tops=%v\n", r, ok, why, strings.Count(out, "DATA RACE"), len(out), raceTopFrames(out))
			}
			if !ok && f.Kind != "RACE" {
				why += " | native output tail: " + tail(out, 400)
			}
		}
		cf.native = why
		nreplay++
		if ok {
			cf.status = "violation"
			validated++
			cf.replay = writeReplay(prop, nreplay, cf.spec, f, why)
		} else if f.Kind == "HANG" || f.Kind == "RACE" || f.Threads > 1 {
			// schedule-dependent findings cannot be forced natively: reported with the symbolic schedule
			cf.status = "violation"
			cf.replay = writeReplay(prop, nreplay, cf.spec, f, "schedule-dependent; native stress run did not reproduce: "+why)
		} else {
			cf.status = "mismatch"
			cf.replay = writeReplay(prop, nreplay, cf.spec, f, "NOT REPRODUCED: "+why)
			problems = append(problems, fmt.Sprintf("ENGINE-MISMATCH %s %s %s: %s (replay %s)", f.Harness, f.Kind, f.ID, why, cf.replay))
		}
	}
	// witness replays
	witnessDiffs := 0
	if bin != nil {
		for _, res := range results {
			n := 0
			for _, s := range res.Samples {
				if n >= nwit {
					break
				}
				n++
				vec := writeTempReplay(s.Nondet, s.Harness)
				out, _ := bin.run(caseKey(res.Spec.Harness, res.Spec.Args), vec, 60*time.Second)
				o := parseNative(out)
				bad := ""
				switch {
				case o.Diverged != "":
					bad = o.Diverged
				case o.Panic != "":
					bad = "native panic on a path the engine considers clean: " + o.Panic
				case len(o.Asserts) > 0:
					bad = "native assertion failure on a clean path: " + strings.Join(o.Asserts, ",")
				case !o.Ended:
					bad = "native run did not finish: " + tail(out, 300)
				default:
					for k, v := range s.Observe {
						if nv, ok := o.Observe[k]; ok && nv != v && !strings.HasPrefix(v, "agg(") && nv != "?" {
							bad = fmt.Sprintf("observe %s: symbolic %s native %s", k, v, nv)
						}
					}
				}
				if bad != "" {
					witnessDiffs++
					problems = append(problems, fmt.Sprintf("ENGINE-MISMATCH witness %s%v: %s (nondet %s)", res.Spec.Harness, res.Spec.Args, bad, jsonStr(s.Nondet, 300)))
				} else {
					validated++
				}
			}
		}
	}

	// report
	violations := 0
	knownPrinted := map[int]bool{}
	var knownMatched []string
	for _, cf := range cfs {
		switch cf.status {
		case "known":
			if !knownPrinted[cf.knownIx] {
				knownPrinted[cf.knownIx] = true
				fmt.Printf("KNOWN-FINDING: property=%s %s\n", prop, known.Findings[cf.knownIx].What)
				knownMatched = append(knownMatched, known.Findings[cf.knownIx].What)
			}
		case "violation":
			violations++
			fmt.Printf("VIOLATION property=%s replay=%s\n", prop, cf.replay)
			fmt.Printf("  %s %s (x%d): %s\n  native: %s\n", cf.f.Kind, cf.f.ID, cf.f.Count, cf.f.Msg, cf.native)
		}
	}
	for _, p := range problems {
		fmt.Println(p)
	}
	writeEvidence(prop, tier, seed, &cfg, results, validated, violations, knownMatched, problems, time.Since(t0).Seconds(), solver)
	if violations > 0 {
		return 1
	}
	if len(problems) > 0 {
		fmt.Printf("INCONCLUSIVE property=%s (%d problems)\n", prop, len(problems))
		return 3
	}
	fmt.Printf("OK property=%s tier=%s runs=%d wall=%.1fs\n", prop, tier, len(results), time.Since(t0).Seconds())
	return 0
}

func tail(s string, n int) string {
	s = strings.TrimSpace(s)
	if len(s) > n {
		s = "..." + s[len(s)-n:]
	}
	return strings.ReplaceAll(s, "\n", " / ")
}

func jsonStr(v interface{}, max int) string {
	b, _ := json.Marshal(v)
	s := string(b)
	if len(s) > max {
		s = s[:max] + "..."
	}
	return s
}

func writeEvidence(prop, tier string, seed int64, cfg *PropConfig, results []*RunResult, validated, violations int, knownMatched, problems []string, wall float64, solver string) {
	states, transitions := 0, 0
	queries := map[string]int{}
	solverS := 0.0
	funcs := map[string]bool{}
	stubs := map[string]bool{}
	var samples []interface{}
	var harnesses []interface{}
	reach := map[string]int{}
	exhaustive := len(results) > 0
	for _, r := range results {
		states += r.Paths
		transitions += r.Forks + r.VCs
		for k, v := range r.Queries {
			queries[k] += v
		}
		solverS += r.SolverS
		for _, f := range r.Funcs {
			funcs[f] = true
		}
		for _, f := range r.Stubs {
			stubs[f] = true
		}
		for i, s := range r.Samples {
			if i < 2 {
				samples = append(samples, s)
			}
		}
		for k, v := range r.Reached {
			reach[r.Spec.Harness+":"+k] += v
		}
		if !r.Exhaustive {
			exhaustive = false
		}
		var fs []string
		for _, f := range r.Findings {
			fs = append(fs, fmt.Sprintf("%s %s x%d", f.Kind, f.ID, f.Count))
		}
		harnesses = append(harnesses, map[string]interface{}{"harness": r.Spec.Harness, "args": r.Spec.Args, "bounds": r.Spec.Bounds, "preempt": r.Spec.Preempt, "race": r.Spec.Race,
			"paths": r.Paths, "forks": r.Forks, "vcs": r.VCs, "steps": r.Steps, "queries": r.Queries, "solver_s": r.SolverS, "wall_s": r.WallS, "exhaustive": r.Exhaustive, "end_reasons": r.EndReasons, "findings": fs})
	}
	var repoFns, stdFns, harnFns []string
	for f := range funcs {
		switch {
		case strings.Contains(f, "go9p.vx") || strings.Contains(f, "go9p.ref") || strings.Contains(f, "$vx"):
			harnFns = append(harnFns, f)
		case strings.Contains(f, "github.com/rminnich/go9p"):
			repoFns = append(repoFns, f)
		default:
			stdFns = append(stdFns, f)
		}
	}
	sort.Strings(repoFns)
	sort.Strings(stdFns)
	sort.Strings(harnFns)
	var stubL []string
	for s := range stubs {
		stubL = append(stubL, s)
	}
	sort.Strings(stubL)
	if len(samples) == 0 {
		samples = append(samples, "no completed path")
	}
	if states == 0 {
		states = 0
	}
	ev := map[string]interface{}{
		"property_id": prop,
		"tier":        tier,
		"seed":        seed,
		"level":       "model_checking",
		"coverage": map[string]interface{}{
			"states":                        states,
			"transitions":                   transitions,
			"traces_validated_against_impl": validated,
			"samples":                       samples,
			"exhaustive":                    exhaustive && len(problems) == 0,
			"functions_encoded":             map[string]interface{}{"repo": repoFns, "std_count": len(stdFns), "harness_count": len(harnFns), "stubbed": stubL},
			"queries":                       queries,
			"solver_s":                      solverS,
			"solver":                        solver,
			"harness_runs":                  harnesses,
			"reachability":                  reach,
			"known_findings_matched":        knownMatched,
			"problems":                      problems,
			"outside_the_claim":             cfg.Outside,
			"explanation":                   "states = symbolic paths explored to completion (each covers every input value driving the code down that path); transitions = forks + verification conditions discharged by the SMT solver; traces_validated = native replays (witness paths and counterexamples) whose observations agreed with the symbolic run",
		},
		"assumptions": cfg.Assumptions,
		"wall_s":      wall,
		"violations":  violations,
	}
	os.MkdirAll(filepath.Join(verifDir, "evidence"), 0o755)
	b, _ := json.MarshalIndent(ev, "", " ")
	os.WriteFile(filepath.Join(verifDir, "evidence", prop+".json"), b, 0o644)
}

func cmdReplay(prop, path string) int {
	b, err := os.ReadFile(path)
	if err != nil {
		fmt.Println(err)
		return 3
	}
	var rf ReplayFile
	if err := json.Unmarshal(b, &rf); err != nil {
		fmt.Println(err)
		return 3
	}
	defer os.RemoveAll(filepath.Join(verifDir, ".work", strconv.Itoa(os.Getpid())))
	var cfg PropConfig
	if cb, err := os.ReadFile(filepath.Join(verifDir, "props", prop+".json")); err == nil {
		json.Unmarshal(cb, &cfg)
	}
	cases := map[string][2]interface{}{caseKey(rf.Harness, rf.Args): {rf.Harness, rf.Args}}
	var rwProg *Program
	if cfg.RewriteOS {
		rwProg, _ = loadProgram(rf.Files)
	}
	bin, err := buildNative(rf.Files, cases, rf.Kind == "RACE", rwProg)
	if err != nil {
		fmt.Println(err)
		return 3
	}
	vec := writeTempReplay(rf.Nondet, rf.Harness)
	out, _ := bin.run(caseKey(rf.Harness, rf.Args), vec, 60*time.Second)
	fmt.Println(out)
	o := parseNative(out)
	ok, why := confirmFinding(&Finding{Kind: rf.Kind, ID: rf.ID}, o)
	if ok {
		fmt.Printf("REPRODUCED %s %s: %s\n", rf.Kind, rf.ID, why)
		return 1
	}
	fmt.Printf("NOT-REPRODUCED %s %s: %s\n", rf.Kind, rf.ID, why)
	return 0
}

func cmdSelftest(args []string) int { return 0 }
