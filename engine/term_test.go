package main

// Differential test of the term rewriter: random expressions are built once with all rewrites (the default
// constructors) and once in raw mode (constant folding only); both must evaluate to the same value under
// random assignments.

import (
	"math/rand"
	"testing"
)

type exprGen struct {
	rng  *rand.Rand
	a, b *TermCtx
}

// gen returns the same expression built in both contexts.
func (g *exprGen) gen(depth int, w int) (*Term, *Term) {
	if depth == 0 || g.rng.Intn(6) == 0 {
		if g.rng.Intn(3) == 0 {
			v := g.rng.Uint64()
			if g.rng.Intn(2) == 0 {
				v = uint64(g.rng.Intn(9))
			}
			return g.a.Const(v, w), g.b.Const(v, w)
		}
		names := []string{"x", "y", "z"}
		n := names[g.rng.Intn(3)] + string(rune('0'+w/8))
		if w == 0 {
			n = "p" + names[g.rng.Intn(3)]
		}
		return g.a.Var(n, w), g.b.Var(n, w)
	}
	if w == 0 {
		switch g.rng.Intn(7) {
		case 0:
			x1, x2 := g.gen(depth-1, 0)
			return g.a.Not(x1), g.b.Not(x2)
		case 1:
			x1, x2 := g.gen(depth-1, 0)
			y1, y2 := g.gen(depth-1, 0)
			return g.a.And(x1, y1), g.b.And(x2, y2)
		case 2:
			x1, x2 := g.gen(depth-1, 0)
			y1, y2 := g.gen(depth-1, 0)
			return g.a.Or(x1, y1), g.b.Or(x2, y2)
		case 3:
			ww := []int{8, 16, 32, 64}[g.rng.Intn(4)]
			x1, x2 := g.gen(depth-1, ww)
			y1, y2 := g.gen(depth-1, ww)
			return g.a.Eq(x1, y1), g.b.Eq(x2, y2)
		case 4:
			c1, c2 := g.gen(depth-1, 0)
			x1, x2 := g.gen(depth-1, 0)
			y1, y2 := g.gen(depth-1, 0)
			return g.a.Ite(c1, x1, y1), g.b.Ite(c2, x2, y2)
		default:
			ww := []int{8, 16, 32, 64}[g.rng.Intn(4)]
			op := []Op{OpUlt, OpUle, OpSlt, OpSle}[g.rng.Intn(4)]
			x1, x2 := g.gen(depth-1, ww)
			y1, y2 := g.gen(depth-1, ww)
			return g.a.Bin(op, x1, y1), g.b.Bin(op, x2, y2)
		}
	}
	switch g.rng.Intn(10) {
	case 0:
		ops := []Op{OpAdd, OpSub, OpMul, OpBAnd, OpBOr, OpBXor, OpShl, OpLShr, OpAShr, OpUDiv, OpURem, OpSDiv, OpSRem}
		op := ops[g.rng.Intn(len(ops))]
		x1, x2 := g.gen(depth-1, w)
		y1, y2 := g.gen(depth-1, w)
		return g.a.Bin(op, x1, y1), g.b.Bin(op, x2, y2)
	case 1:
		x1, x2 := g.gen(depth-1, w)
		return g.a.BNot(x1), g.b.BNot(x2)
	case 2:
		x1, x2 := g.gen(depth-1, w)
		return g.a.Neg(x1), g.b.Neg(x2)
	case 3: // extract from something wider
		if w < 64 {
			ww := 64
			if w < 32 && g.rng.Intn(2) == 0 {
				ww = 32
			}
			lo := g.rng.Intn(ww - w + 1)
			x1, x2 := g.gen(depth-1, ww)
			return g.a.Extract(x1, lo+w-1, lo), g.b.Extract(x2, lo+w-1, lo)
		}
	case 4: // zext / sext from narrower
		if w > 8 {
			nw := []int{8, 16, 32}[g.rng.Intn(3)]
			if nw < w {
				x1, x2 := g.gen(depth-1, nw)
				if g.rng.Intn(2) == 0 {
					return g.a.ZExt(x1, w), g.b.ZExt(x2, w)
				}
				return g.a.SExt(x1, w), g.b.SExt(x2, w)
			}
		}
	case 5: // concat of two halves
		if w >= 16 {
			x1, x2 := g.gen(depth-1, w/2)
			y1, y2 := g.gen(depth-1, w/2)
			return g.a.Concat(x1, y1), g.b.Concat(x2, y2)
		}
	case 6: // shift by a constant (the codec's pattern)
		k := uint64(g.rng.Intn(w + 2))
		x1, x2 := g.gen(depth-1, w)
		op := []Op{OpShl, OpLShr, OpAShr}[g.rng.Intn(3)]
		return g.a.Bin(op, x1, g.a.Const(k, w)), g.b.Bin(op, x2, g.b.Const(k, w))
	case 7:
		c1, c2 := g.gen(depth-1, 0)
		x1, x2 := g.gen(depth-1, w)
		y1, y2 := g.gen(depth-1, w)
		return g.a.Ite(c1, x1, y1), g.b.Ite(c2, x2, y2)
	case 8: // mask with a constant
		m := uint64(1)<<uint(g.rng.Intn(w)) - 1
		if g.rng.Intn(2) == 0 {
			m = g.rng.Uint64()
		}
		x1, x2 := g.gen(depth-1, w)
		return g.a.Bin(OpBAnd, x1, g.a.Const(m, w)), g.b.Bin(OpBAnd, x2, g.b.Const(m, w))
	}
	x1, x2 := g.gen(depth-1, w)
	y1, y2 := g.gen(depth-1, w)
	return g.a.Bin(OpBOr, x1, y1), g.b.Bin(OpBOr, x2, y2)
}

func TestRewriterAgainstRawSemantics(t *testing.T) {
	rng := rand.New(rand.NewSource(7))
	for iter := 0; iter < 20000; iter++ {
		g := &exprGen{rng: rng, a: NewTermCtx(), b: NewTermCtx()}
		g.b.Raw = true
		w := []int{0, 8, 16, 32, 64}[rng.Intn(5)]
		ta, tb := g.gen(4, w)
		for k := 0; k < 6; k++ {
			m := Model{}
			for _, base := range []string{"x", "y", "z"} {
				for _, d := range []string{"1", "2", "4", "8"} {
					v := rng.Uint64()
					if rng.Intn(3) == 0 {
						v = uint64(rng.Intn(4))
					}
					m[base+d] = v
				}
				m["p"+base] = uint64(rng.Intn(2))
			}
			va := ta.Eval(m, map[*Term]uint64{})
			vb := tb.Eval(m, map[*Term]uint64{})
			if va != vb {
				t.Fatalf("iter %d: rewritten %s = %d, raw %s = %d under %v", iter, ta, va, tb, vb, m)
			}
		}
	}
}

// evalBin against Go's own 8-bit arithmetic, exhaustively.
func TestEvalBinMatchesGo8(t *testing.T) {
	for x := 0; x < 256; x++ {
		for y := 0; y < 256; y++ {
			ux, uy := uint8(x), uint8(y)
			sx, sy := int8(ux), int8(uy)
			chk := func(op Op, want uint64) {
				if got := evalBin(op, 8, uint64(ux), uint64(uy)); got != want {
					t.Fatalf("op %d x=%d y=%d: got %d want %d", op, x, y, got, want)
				}
			}
			chk(OpAdd, uint64(ux+uy))
			chk(OpSub, uint64(ux-uy))
			chk(OpMul, uint64(ux*uy))
			chk(OpBAnd, uint64(ux&uy))
			chk(OpBOr, uint64(ux|uy))
			chk(OpBXor, uint64(ux^uy))
			chk(OpShl, uint64(ux<<uy))
			chk(OpLShr, uint64(ux>>uy))
			chk(OpAShr, uint64(uint8(sx>>uy)))
			chk(OpUlt, b2u(ux < uy))
			chk(OpUle, b2u(ux <= uy))
			chk(OpSlt, b2u(sx < sy))
			chk(OpSle, b2u(sx <= sy))
			if uy != 0 {
				chk(OpUDiv, uint64(ux/uy))
				chk(OpURem, uint64(ux%uy))
				chk(OpSDiv, uint64(uint8(sx/sy)))
				chk(OpSRem, uint64(uint8(sx%sy)))
			}
		}
	}
}
