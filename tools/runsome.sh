#!/bin/sh
# runs the named checks at the given tier: runsome.sh <tier> <id>...
tier=$1; shift
cd "$(dirname "$0")/.."
for p in "$@"; do
  s=$(date +%s)
  ./check $p $tier > /tmp/runsome_$p.log 2>&1
  rc=$?
  e=$(date +%s)
  echo "$p rc=$rc $((e-s))s $(tail -1 /tmp/runsome_$p.log | cut -c1-160)"
done
