#!/usr/bin/env python3
# Builds /verif/MANIFEST.json from the claims table below (keeps it valid by construction).
import json, os
V = os.path.dirname(os.path.dirname(os.path.abspath(__file__)))
TECH = "bounded symbolic execution of go/ssa (gosym) with SMT (z3, QF_BV); counterexamples replayed natively"
NOTE = ("trusted base: gosym engine (/verif/engine: go/ssa interpreter + term rewriter), golang.org/x/tools go/ssa v0.29.0, z3 4.8.12, "
        "the Go toolchain for native replays; stubs and preconditions are listed in the evidence file under assumptions")
CLAIMS = {
 "C01": ("5 C01", "Bounded symbolic model checking of the real pack/unpack code: for each of the 27 constructors x both dialects every integer field is a full-width symbolic value, strings are 0..3 (thorough 0..6) symbolic bytes plus the exact lengths 255/256 (thorough 65535), 0..2 (thorough 16) names/qids, payloads 0..4 (thorough 0..16 and 8192) bytes, buffers of need-1/need/need+5 bytes; every assertion (bytes == independent layout table, decode == input, SetTag) is discharged by z3 with term rewriting disabled (raw mode). Nothing is claimed outside these bounds."),
 "C02": ("5 C02", "Bounded symbolic model checking of Unpack/UnpackDir on fully symbolic inputs: every byte string of length 0..24 (thorough 0..32) for every type byte in both dialects, plus the stat-carrying types up to the minimal stat packet + 3 (thorough + 6) bytes (beyond 62/66 bytes under the stated assumption that each stat string is <= 1 (2) bytes). Panic VCs, size/consumed relations, aliasing inside the packet, independence of trailing bytes, re-encode round trip and a (deliberately loose) allocation bound are decided by z3 per path; the path set is exhaustive within the bound."),

 "C03": ("5 C03", "Bounded model checking of the real reply path: (a) Respond/RespondR*/RespondError on a request with arbitrary status bits and 1..3 answers queues a reply exactly when the request was neither answered nor flushed; (b) end-to-end through Srv.NewConn on a scripted transport: after Tversion/Tattach/Topen, 2 (thorough 3) concurrent Tread/Twrite with distinct symbolic tags and offsets, implementation answering ok / with an error / twice, Maxpend 0/1(/4), every completion order and every interleaving of receiver, workers and sender with <= 1 (thorough 2) preemptions; the wire log must hold exactly one frame per request tag whose bytes equal the independent encoding of what the implementation produced for that request. Happens-before race detection runs on every schedule."),
 "C05": ("5 C05", "One-step symbolic model checking of Process(): fid state (type byte, opened, open mode) fully symbolic, request of type Twalk/Topen/Tcreate/Tread/Twrite with all fields full-width symbolic (32-bit counts, any msize >= 24, both dialects), with and without AuthOps; a three-valued reference rule transcribed from the statement decides must-refuse / must-forward / either; forwarded requests must reach the implementation exactly once with the table's fid, its user and unchanged arguments, with no framework lock held. Plus: AuthCheck precedes every forwarded attach (symbolic uid / afid), and an observer goroutine at the reply rendezvous sees the request's effects in every schedule (<= 2 preemptions). One step from an arbitrary state: history length is not a bound."),
 "C20": ("5 C20", "Bounded model checking of the real Logger (its goroutine, channels and select): capacity 1..2 (thorough ..3), every sequence of 3 (thorough 4-5) Log/Filter calls with symbolic types, plus a final Filter after quiescence, and two concurrent producers; all schedules with <= 1 (thorough 2) preemptions and every select choice; oracle = reference ring (subsequence in log order, no duplicates, no gaps, <= N, convergence to the last N, nobody parked but the logger)."),

 "C07": ("5 C07", "Bounded model checking through the real Srv.NewConn on a scripted transport: a target request (Twalk to a new fid / Topen / Tread / Tattach / Tclunk) and one or two Tflush (second flush of the target, flush of the flush, unknown tag), delivered in one or two segments; with no FlushOp, a no-op FlushOp, or one that cancels; target optionally held inside the implementation or answered later; every interleaving of receiver, sender and worker goroutines with <= 1 preemption (thorough: all 5x2x3x2 combinations, 2 preemptions on two of them). Oracle over the transport log and a common clock: one Rflush per Tflush, reply before Rflush, a cancelled request is never handed to the implementation after the Rflush and leaves no fid/open state (probed). Race detection on every schedule."),
}
props = [json.loads(l) for l in open(os.path.join(V, "properties.jsonl"))]
checks, na = [], []
NA_REASON = {}
for p in props:
    pid = p["id"]
    if pid in CLAIMS and os.path.exists(os.path.join(V, "props", pid + ".json")):
        ref, text = CLAIMS[pid]
        checks.append({
            "property_id": pid, "quick_cmd": f"./check {pid} quick", "thorough_cmd": f"./check {pid} thorough",
            "evidence_file": f"/verif/evidence/{pid}.json", "replay_cmd_template": f"./check {pid} replay {{path}}", "engine": "gosym",
            "level_claimed": {"category": "model_checking", "text": text, "design_ref": "DESIGN.md §" + ref},
            "level_note": NOTE, "technique": TECH})
    else:
        na.append({"property_id": pid, "reason": NA_REASON.get(pid, "check not built yet (harness under construction); will be claimed once it runs clean on the unchanged tree")})
m = {"version": 1, "setup_cmd": "./setup.sh",
     "hooks": {"guard": "verif", "enable": "none needed: harnesses are injected as go/packages overlays (package go9p) and native replays use go test -overlay; /repo carries no hook code",
               "baseline_off_cmd": "cd /repo && GOFLAGS=-mod=mod GOPROXY=off go test -vet=off -count=1 ./...", "source_commits": [], "add_only": True},
     "engines": [{"name": "gosym", "path": "/verif/engine", "serves_properties": [c["property_id"] for c in checks],
                  "kind_free_text": "self-written symbolic executor for go/ssa: symbolic scalars, concrete shapes, path exploration by re-execution, VCs to z3 -in, native replay"}],
     "checks": checks, "not_applicable": na,
     "notes": "exit codes: 0 held within bounds; 1 + VIOLATION line; 3 inconclusive (solver unknown / engine mismatch / budget) - never reported as success"}
json.dump(m, open(os.path.join(V, "MANIFEST.json"), "w"), indent=1)
print("claimed:", [c["property_id"] for c in checks])
