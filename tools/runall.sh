#!/bin/sh
# runs every claimed check at the given tier and prints one line per property
tier=${1:-quick}
cd "$(dirname "$0")/.."
for p in $(python3 -c "import json;print(' '.join(c['property_id'] for c in json.load(open('MANIFEST.json'))['checks']))"); do
  s=$(date +%s)
  ./check $p $tier > /tmp/runall_$p.log 2>&1
  rc=$?
  e=$(date +%s)
  echo "$p rc=$rc $((e-s))s $(tail -1 /tmp/runall_$p.log | cut -c1-120)"
done
