#!/usr/bin/env python3
# Writes /verif/seeded/README.md from the meta.json files produced by tools/seedeval.py
import json, glob, os
rows = []
for d in sorted(glob.glob("/verif/seeded/*/meta.json")):
    m = json.load(open(d))
    c = m.get("confirmation", {})
    name = os.path.basename(os.path.dirname(d))
    finds = [l.strip() for l in c.get("check_findings", []) if not l.startswith("VIOLATION")]
    first = finds[0][:110] if finds else ""
    rows.append((name, m.get("property"), m.get("summary", "").replace("|", "/")[:170], m.get("needs", "").replace("|", "/")[:150],
                 "yes" if c.get("confirmed") else "NO", c.get("check_property", m.get("property")), "caught" if c.get("detected") else "MISSED", first.replace("|", "/")))
out = ["# Seeded defects", "",
       "Changes produced by independent sub-agents (given only a property's text and a private worktree); each compiles, passes the",
       "204 unit tests and comes with a demonstration that fails with the change and passes without it. `confirmed` = I re-applied",
       "the patch in a scratch worktree, ran the suite twice and the demonstration both ways (tools/seedeval.py). `check` = result of",
       "`./check <property> quick` against a scratch worktree with the patch applied (VERIF_REPO), exit 1 = caught.", "",
       "| seed | property | change | needs | confirmed | checked by | result | first finding |", "|---|---|---|---|---|---|---|---|"]
for r in rows:
    out.append("| " + " | ".join(str(x) for x in r) + " |")
out += ["", "Checks that were strengthened because a seeded change slipped through at first are listed in DESIGN.md §8."]
open("/verif/seeded/README.md", "w").write("\n".join(out) + "\n")
print(len(rows), "rows;", sum(1 for r in rows if r[6] == "caught"), "caught")
