#!/usr/bin/env python3
# Confirms a seeded defect in a scratch worktree and runs the property's check against it.
# usage: seedeval.py <dir with patch.diff demo_test.go meta.json> [tier]
import json, os, shutil, subprocess, sys, time
src = sys.argv[1].rstrip('/')
tier = sys.argv[2] if len(sys.argv) > 2 else "quick"
meta = json.load(open(os.path.join(src, "meta.json")))
prop = meta["property"]
check_prop = os.environ.get("SEED_CHECK_PROP", prop)  # a defect may be caught by another property's check
name = os.path.basename(src)
ENV = dict(os.environ, GOFLAGS="-mod=mod", GOPROXY="off")
def sh(cmd, cwd=None, timeout=900):
    p = subprocess.run(cmd, shell=True, cwd=cwd, env=ENV, capture_output=True, text=True, timeout=timeout)
    return p.returncode, (p.stdout + p.stderr)
wt = "/tmp/confirm-wt-%d" % os.getpid()
sh("git -C /repo worktree add -q --detach %s HEAD" % wt)
res = {"property": prop, "name": name}
try:
    rc, out = sh("git apply --check %s/patch.diff && git apply %s/patch.diff" % (src, src), cwd=wt)
    res["patch_applies"] = rc == 0
    if rc != 0:
        res["apply_error"] = out[-400:]
    else:
        rc1, o1 = sh("go test -vet=off -count=1 ./...", cwd=wt)
        rc2, o2 = sh("go test -vet=off -count=1 ./...", cwd=wt)
        res["suite_passes_mutated"] = rc1 == 0 and rc2 == 0
        demo = "zz_seed_%s_test.go" % name.lower().replace("-", "_")
        shutil.copy(os.path.join(src, "demo_test.go"), os.path.join(wt, demo))
        run = meta.get("demo_cmd", "")
        pat = None
        import re
        m = re.search(r"-run\s+'?\"?([^'\" ]+)", run)
        pat = m.group(1) if m else "."
        race = "-race" if "-race" in run else ""
        cmd = "go test -vet=off -count=1 %s -timeout 120s -run '%s' ." % (race, pat)
        rcm, om = sh(cmd, cwd=wt)
        res["demo_fails_mutated"] = rcm != 0
        res["demo_mutated_tail"] = om[-300:]
        sh("git checkout -- . ", cwd=wt)
        rcc, oc = sh(cmd, cwd=wt)
        res["demo_passes_clean"] = rcc == 0
        res["demo_cmd_used"] = cmd
finally:
    sh("git -C /repo worktree remove --force %s" % wt)
confirmed = res.get("patch_applies") and res.get("suite_passes_mutated") and res.get("demo_fails_mutated") and res.get("demo_passes_clean")
res["confirmed"] = bool(confirmed)
if confirmed:
    # run the property's check against a scratch worktree with the mutation applied (VERIF_REPO), so that /repo
    # itself is never touched while other checks may be running
    wt2 = "/tmp/seedcheck-wt-%d" % os.getpid()
    sh("git -C /repo worktree add -q --detach %s HEAD" % wt2)
    try:
        sh("git apply %s/patch.diff" % src, cwd=wt2)
        t0 = time.time()
        vd = "/tmp/seedcheck-verif-%d" % os.getpid()
        sh("rm -rf %s && mkdir -p %s && cp -r /verif/props /verif/harness /verif/known_findings.json %s/ && mkdir -p %s/engine && ln -s /verif/engine/gosym %s/engine/gosym" % (vd, vd, vd, vd, vd))
        rc, out = sh("VERIF_REPO=%s VERIF_DIR=%s /verif/engine/gosym check %s %s" % (wt2, vd, check_prop, tier), timeout=7200)
        res["check_tier"] = tier
        res["check_property"] = check_prop
        res["check_exit"] = rc
        res["check_wall_s"] = round(time.time() - t0, 1)
        lines = [l for l in out.splitlines() if l.startswith("VIOLATION") or l.startswith("  ") and ("ASSERT" in l or "PANIC" in l or "RACE" in l or "HANG" in l)]
        res["check_findings"] = lines[:8]
        res["detected"] = rc == 1
        if rc not in (0, 1):
            res["check_tail"] = out[-600:]
        sh("rm -rf %s" % vd)
    finally:
        sh("git -C /repo worktree remove --force %s" % wt2)
print(json.dumps(res, indent=1))
if confirmed:
    dst = "/verif/seeded/%s" % name
    os.makedirs(dst, exist_ok=True)
    for f in ("patch.diff", "demo_test.go"):
        if os.path.abspath(src) != os.path.abspath(dst):
            shutil.copy(os.path.join(src, f), dst)
    meta["confirmation"] = {k: res[k] for k in res if k not in ("property", "name")}
    json.dump(meta, open(os.path.join(dst, "meta.json"), "w"), indent=1)
