#!/usr/bin/env python3
# Generates props/C14.json .. C18.json (Ufs on the model file system) — bounds live here.
# Same layout as gen.py: {property, assumptions, outside, rewrite_os, quick[], thorough[]} with RunSpec entries.
import json, os
D = os.path.dirname(os.path.abspath(__file__))
STD_ASSUME = [
 "engine: gosym (this repository) interprets go/ssa of /repo's current tree; Go semantics as implemented in engine/*.go (validated by native witness replays on every run)",
 "solver: z3 4.8.12 (QF_BV over bit-vectors with Go's wrapping semantics)",
 "flag akaros == false (go9p.Akaros)",
 "fmt.Sprintf/log.* are modelled (formatting is not the subject): Sprintf is evaluated on concrete arguments, symbolic arguments print as '?'",
]
FS_ASSUME = [
 "the operating system is the model file system harness/kit_fs.go: os.Lstat/Stat/OpenFile/Mkdir/Symlink/Link/Remove/Chmod/Chown/Truncate/Chtimes/Readlink, syscall.Rename, (*os.File).Close/ReadAt/WriteAt/Readdir, os/user.Lookup/LookupId are replaced by stubs working on an in-memory tree (lexical path resolution; a final symlink is followed by the calls that follow symlinks); 'the kernel does what POSIX says' is trusted, not checked",
 "model errors have the dynamic types the os package returns (*os.PathError / *os.LinkError wrapping syscall.Errno; bare syscall.Errno from syscall.Rename; io.EOF from ReadAt)",
 "(syscall.Errno).Error is stubbed to a fixed text (error texts are not the subject)",
 "requests are driven through (*SrvReq).Process() on a hand-built Conn exactly as the repository's unit tests do; fids are installed in the state attach/walk/open leave them in (SrvFid{User,Type,opened,Omode}, Aux=*ufsFid{path,file})",
 "the reply buffer (req.Rc) is 256..512 bytes, i.e. not smaller than any reply produced here (replies that do not fit msize are C03/C12's subject)",
]
def F(c): return ["api", "ref_wire", "kit_srv", "kit_fs", c]
def w(id, cfg):
    cfg["property"] = id
    cfg["rewrite_os"] = True
    cfg.setdefault("assumptions", []).extend(FS_ASSUME + STD_ASSUME)
    json.dump(cfg, open(os.path.join(D, id + ".json"), "w"), indent=1)
def B(x): return "true" if x else "false"
DOTU = (False, True)

def reneg(isdir):
    what = "the root directory" if isdir else "a 300-byte file"
    return [{"harness": "vxHRenegRead", "args": [B(u), B(isdir)], "files": ["api", "ref_wire", "kit_srv", "kit_net", "kit_fs", "reneg_read"], "preempt": 0, "free_switches": -1,
             "reach": ["dir-read" if isdir else "file-read"],
             "bounds": f"live Ufs connection through the receive/send loops, dotu={B(u)}: Tversion(128), second Tversion with msize in {{100,128,129,400,8192,9000}}, attach, open, Tread of {what} at offset 0 with the largest count the second Rversion's msize allows; deterministic schedule"} for u in DOTU]

def conc14(quick):
    specs = [(True, 2, 0), (False, 2, 0)] if quick else [(True, 2, 0), (False, 2, 0), (True, 3, 2), (False, 3, 2)]
    return [{"harness": "vxH14Conc", "args": [B(u), str(n)], "files": ["api", "ref_wire", "kit_srv", "kit_net", "kit_fs", "ufs_c14conc"], "preempt": 0, "reach": ["done"], "timeout_s": 1500,
             **({"free_switches": fsw} if fsw else {}),
             "bounds": f"live Ufs connection, dotu={B(u)}: {n} Treads on one open fid outstanding together (offsets 0, 4, 8; count 3; 10-byte file), every file-system call of the server a scheduling point; " + ("every choice of the next goroutine" if not fsw else f"<= {fsw} non-default choices")} for (u, n, fsw) in specs]

# ---------------- C14 (server part) ----------------
def c14(L, maxc, wL, wN):
    runs = []
    for u in DOTU:
        runs.append({"harness": "vxH14Read", "args": [B(u), str(L), str(maxc)], "files": F("c14_data"),
                     "reach": ["ok", "at-or-beyond-eof", "hugeoffset", "toolarge"] + (["inside"] if L > 0 else []),
                     "bounds": f"H14.srv read, dotu={B(u)}: file of exactly {L} symbolic bytes, offset any 64-bit value, count any 32-bit value < 2^32-24, msize symbolic in [24, {24+maxc}] (so served counts are 0..{maxc})"})
        runs.append({"harness": "vxH14Write", "args": [B(u), str(wL), str(wN)], "files": F("c14_data"),
                     "reach": ["ok", "content-checked", "write-error", "toolarge"],
                     "bounds": f"H14.srv write, dotu={B(u)}: old content {wL} symbolic bytes, {wN} symbolic data bytes (count == len(data)), offset any 64-bit value (content compared where offset+{wN} <= 16), open mode any with write access, msize symbolic in [24, {24+wN+1}]"})
        if wN > 1:
            runs.append({"harness": "vxH14Write", "args": [B(u), str(wL), "0"], "files": F("c14_data"), "reach": ["ok"],
                         "bounds": f"H14.srv write of 0 bytes, dotu={B(u)}"})
    return runs + reneg(False)
w("C14", {
 "quick": c14(8, 10, 2, 3) + conc14(True),
 "thorough": c14(12, 14, 4, 4) + c14(0, 3, 0, 1)[:-2] + c14(1, 3, 1, 2)[:-2] + conc14(False),
 "outside": ["the client half (H14.clnt: Clnt.Read/Write, File helpers) is a separate lemma", "files longer than 12 bytes / counts above 14 (the code's arithmetic does not depend on magnitude beyond the 32/64-bit edges, which are symbolic)",
             "counts >= 2^32-24, for which the generic layer's own guard wraps (C05/C06, finding F9)", "offsets >= 2^63 are not representable as a file offset: error or empty read are both accepted", "real disks, short reads by the kernel"],
 "assumptions": ["oracle: harness/ref_wire.go encodes the expected Rread/Rwrite packet from the reference slice file[off:min(off+count,L)]; the model's WriteAt applies data only when offset+len <= 16 (beyond that only the call arguments are compared)"],
})

# ---------------- C15 ----------------
def c15(kmax, T, snaps):
    runs = []
    for u in DOTU:
        runs.append({"harness": "vxH15Window", "args": [B(u), str(kmax), str(T), "false"], "files": F("c15_dirread"),
                     "reach": ["rread", "too-small", "empty-at-end"],
                     "bounds": f"H15.window, dotu={B(u)}: snapshot of 1..{kmax} records with symbolic end offsets (strictly increasing, total {T} bytes, symbolic content), offset = any record boundary > 0, count any value 0..{T+2}"})
        for (k, nl) in snaps:
            runs.append({"harness": "vxH15Snap", "args": [B(u), str(k), str(nl)], "files": F("c15_dirread"), "conc_cap": 100 * k + 56,
                         "reach": ["rread", "too-small", "whole-directory"],
                         "bounds": f"H15.snap, dotu={B(u)}: offset-0 read of a model directory with 0..{k} entries (file/dir/symlink each, names of 1..{nl} symbolic bytes, symbolic perm/size/mtime/inode), stale previous snapshot, count any value 0..{100*k}"})
    return runs
w("C15", {
 "quick": c15(4, 8, [(2, 2)]) + reneg(True),
 "thorough": c15(4, 12, [(2, 3), (3, 1)]) + c15(6, 9, []) + reneg(True),
 "outside": ["the client half (H15.clnt: File.Readdir) is a separate lemma", "offsets that do not follow the protocol rule (inside a record / past the end) are C06's panic-freedom question: vxH15Window with arb=true reproduces F7 there",
             "record sizes in H15.window are small integers (1..T), real records are >= 49 bytes: the window arithmetic is size-agnostic; H15.snap uses real records", "directories with more than 3 entries in H15.snap (the window step is inductive in the number of entries)"],
 "assumptions": ["induction: H15.snap establishes the snapshot invariant (direntends = record boundaries, strictly increasing, last = len(dirents)) and the window rules at offset 0; H15.window shows that one rule-following read from any valid snapshot returns whole records starting at the offset, does not change the snapshot, and is empty only at the end",
                 "oracle: harness/ref_wire_stat.go (independent stat-record decoder) and the metadata relation vxMetaAgrees (C16's statement)"],
})

# ---------------- C16 ----------------
def c16(nmax, namelens):
    runs = []
    for u in DOTU:
        runs.append({"harness": "vxH16Walk", "args": [B(u), str(nmax)], "files": F("c16_walk"), "reach": ["complete", "partial", "error", "dotdot-above-root"],
                     "bounds": f"H16.walk, dotu={B(u)}: tree of depth 3 (9 entries: dirs, files, a symlink) each existing symbolically, 0..{nmax} elements from {{a, b, .., 'c d', e-acute}}, newfid = fid or fresh, start at depth 0 or 1"})
        for nl in namelens:
            runs.append({"harness": "vxH16Meta", "args": [B(u), str(nl)], "files": F("c16_walk"), "reach": ["ok"],
                         "bounds": f"H16.meta, dotu={B(u)}: dir2Qid/dir2QidType/dir2Npmode/dir2Dir on a FileInfo with symbolic mode (all 32 bits), st_mode, size >= 0, mtime (32 bit), inode, rdev; name of {nl} symbolic bytes without '/'"})
            runs.append({"harness": "vxH16Stat", "args": [B(u), str(nl)], "files": F("c16_walk"), "reach": ["ok"],
                         "bounds": f"H16.meta via Tstat, dotu={B(u)}: file/dir/symlink with symbolic non-type mode bits, size, mtime, inode; name of {nl} symbolic bytes; Rstat fields and the wire record (independent decoder)"})
    return runs
w("C16", {
 "quick": c16(3, [2]),
 "thorough": c16(4, [1, 3]),
 "outside": ["Clnt.FWalk (H16.fwalk) is a separate lemma", "'..' that would leave the exported root: left to C18 (three-valued here)", "qid.Version, atime, owner names and numbers are not asserted (the statement does not mention them)",
             "mtime beyond 32 bits; uid/gid other than the two model users (the kit's Upool returns nil for unknown uids, the real OsUsers never does)"],
 "assumptions": ["the reference resolves names over the harness's own table of the tree, not through the model FS"],
})

# ---------------- C17 ----------------
def c17(faults, namelens):
    runs = []
    cls = ["plain file", "directory", "symlink", "hard link", "any perm bits (generic rules only)"]
    for u in DOTU:
        for nl in namelens:
            for c in range(5):
                reach = ["rcreate", "rerror"] if (u or c in (0, 1, 4)) else ["rerror"]
                runs.append({"harness": "vxH17Create", "args": [B(u), str(c), str(faults), str(nl)], "files": F("c17_mutate"), "reach": reach,
                             "bounds": f"H17.create {cls[c]}, dotu={B(u)}: perm any 32-bit value of that class, mode any 8-bit value, name {nl} symbolic byte(s) without '/' (may hit an existing file/dir), <= {faults} injected failure(s) with symbolic errno 1..4095"})
        runs.append({"harness": "vxH17Rename", "args": [B(u)], "files": F("c17_mutate"), "reach": ["renamed", "refused"],
                     "bounds": f"wstat used only to rename a file or a directory onto a free name, a file, an empty directory or a non-empty directory; outcome per rename(2); dotu={B(u)}"})
        runs.append({"harness": "vxH17Write", "args": [B(u), str(faults), "2"], "files": F("c17_mutate"), "reach": ["rwrite", "rerror"],
                     "bounds": f"H17.write, dotu={B(u)}: 2 data bytes, any offset, <= {faults} injected failure(s)"})
        runs.append({"harness": "vxH17Remove", "args": [B(u), str(faults)], "files": F("c17_mutate"), "reach": ["rremove", "rerror"],
                     "bounds": f"H17.remove, dotu={B(u)}: file / empty dir / non-empty dir / symlink, fid open or not, <= {faults} injected failure(s)"})
        runs.append({"harness": "vxH17Wstat", "args": [B(u), str(faults)], "files": F("c17_mutate"), "reach": ["rwstat", "rerror"],
                     "bounds": f"H17.wstat, dotu={B(u)}: mode, length, mtime, atime any value (incl. the don't-touch sentinels), name in {{'', 'n', '/n'}}, ids any (dotu) / uid name in {{'', 'u1', unknown}}, <= {faults} injected failure(s)"})
    return runs
w("C17", {
 "quick": c17(1, [1]),
 "thorough": c17(2, [1, 2]),
 "outside": ["the kernel's own semantics", "three-valued (not asserted): several file-type bits in one perm, device/pipe/socket creates, setuid/setgid bits, chown arguments, atime, order of wstat's sub-operations, the tree after a wstat that fails half-way, Rerror without any failed call",
             "create/rename names containing '/' or equal to '.'/'..' (C18)", "group names in non-.u wstat"],
 "assumptions": ["environment: once a call other than a pure query has succeeded within a request, lstat/stat/readlink of that tree do not fail spuriously (no concurrent interference); every other call may fail, including the open that follows mkdir/symlink/link",
                 "call conformance: the non-query model calls made must be a prefix of the reference list derived from the request, complete on success"],
})

# ---------------- C18 ----------------
OPS = ["attach", "walk", "walk2", "create", "rename"]
def c18(plan):
    runs = []
    for (op, u, L, alpha) in plan:
        al = {3: "{. / a}", 4: "{. / a b}", 5: "{. / r} (the root's own name; siblings /rr and /r. are canaries)"}[alpha]
        runs.append({"harness": "vxH18Confine", "args": [B(u), str(op), str(L), str(alpha), "false"], "files": F("c18_confine"), "reach": ["served", "refused"],
                     "bounds": f"H18.confine {OPS[op]}, dotu={B(u)}: every string of length 0..{L} over {al}" + (" for each of 2 elements" if op == 2 else "") +
                               ("; fid at /r, /r/a, /r/a/a or /r/a/.." if op in (1, 2, 3) else "") + ("; file/dir/symlink/hard link" if op == 3 else "") +
                               ("; renamed object at depth 1..3" if op == 4 else "")})
    return runs
w("C18", {
 "quick": c18([(0, False, 4, 3), (0, True, 4, 3), (1, False, 4, 3), (1, True, 4, 3), (2, True, 3, 3), (3, True, 4, 3), (3, False, 4, 3), (4, True, 4, 3), (4, False, 4, 3),
                (0, True, 4, 5), (1, True, 4, 5), (3, True, 4, 5), (4, True, 5, 5)]),
 "thorough": c18([(0, True, 5, 4), (0, False, 5, 4), (1, True, 5, 4), (1, False, 5, 4), (2, True, 4, 3), (2, True, 3, 4), (3, True, 5, 4), (4, True, 5, 4), (4, False, 5, 4),
                   (0, True, 5, 5), (1, True, 5, 5), (2, True, 3, 5), (3, True, 5, 5), (4, True, 5, 5), (4, False, 5, 5)]),
 "outside": ["symlinks inside the tree that point outside it (excluded by the statement's hypothesis)", "names longer than 5 bytes or with other bytes (the code treats all bytes other than '/' and '.' alike)", "walks of more than 2 elements in one Twalk (each element is resolved from the path left by the previous one; the fid-path invariant carries over)",
             "requests that use only the fid's own path (open/read/remove/stat/clunk): covered by the invariant 'every fid path resolves inside the root' asserted after every request"],
 "assumptions": ["containment is judged by refInside in harness/c18_confine.go: an independent lexical resolver ('', '.', '..' element by element); every path argument of every creating/opening/changing/removing model-FS call is checked; pure queries (lstat/stat/readlink) on outside paths are judged by their effect (no qid of an outside object in the reply, every fid path still inside) — the harness argument strict=true checks them directly as well", "the tree has canaries /a, /a/a, /aa, /b, /rr, /rr/r, /r. next to the exported /r"],
})
