#!/usr/bin/env python3
# Generates props/<id>.json (the per-property run lists) — bounds live here.
import json, os
D = os.path.dirname(os.path.abspath(__file__))
TYPES = [t for t in range(100, 128) if t != 106]
STD_ASSUME = [
 "engine: gosym (this repository) interprets go/ssa of /repo's current tree; Go semantics as implemented in engine/*.go (validated by native witness replays on every run)",
 "solver: z3 4.8.12 (QF_BV over bit-vectors with Go's wrapping semantics)",
 "flag akaros == false (go9p.Akaros)",
 "fmt.Sprintf/log.* are modelled (formatting is not the subject): Sprintf is evaluated on concrete arguments, symbolic arguments print as '?'",
]
def w(id, cfg):
    cfg["property"] = id
    cfg.setdefault("assumptions", []).extend(STD_ASSUME)
    json.dump(cfg, open(os.path.join(D, id + ".json"), "w"), indent=1)

# ---------------- C01 ----------------
def c01(B, K, D_, raw, longs=(), bigK=None, bigD=None):
    runs = []
    F = ["api", "ref_wire", "c01"]
    for t in TYPES:
        for dotu in ("false", "true"):
            runs.append({"harness": "vxH01Msg", "args": [str(t), dotu, str(B), str(K), str(D_), "0"], "files": F, "raw": raw,
                         "reach": ["ok", "small"], "bounds": f"type {t} dotu={dotu}: strings 0..{B} bytes, <= {K} names/qids, payload 0..{D_}, buffer need-1/need/need+5"})
    for dotu in ("false", "true"):
        runs.append({"harness": "vxH01Stat", "args": [dotu, str(B), "0"], "files": F, "raw": raw, "reach": ["ok"], "bounds": f"stat record alone, strings 0..{B}"})
    runs.append({"harness": "vxH01Rread", "args": [str(max(D_, 4))], "files": F, "raw": raw, "reach": ["ok"], "bounds": f"InitRread/SetRreadCount, count 0..{max(D_,4)}"})
    for (rw, n) in ((True, 5041), (True, 5042), (False, 32767), (False, 32768)) + (((True, 65535), (True, 19), (False, 65535)) if K > 2 else ()):
        runs.append({"harness": "vxH01BigWalk", "args": ["true" if rw else "false", str(n)], "files": ["api", "ref_wire", "big_c01"], "raw": raw, "reach": ["done"],
                     "bounds": f"{'Rwalk' if rw else 'Twalk'} with {n} elements (16-bit count whose product with the element size exceeds 16 bits): packs, decodes with the same count and elements; symbolic tag and one symbolic qid"})
    for L in longs:
        for t in (100, 102, 104, 107, 110, 114, 125, 126):
            if L > 60000 and t in (125, 126):
                continue  # a stat record with a 65535-byte string is not representable (its size[2] would overflow)
            for dotu in ("false", "true"):
                runs.append({"harness": "vxH01Msg", "args": [str(t), dotu, "1", "1", "1", str(L)], "files": F, "reach": ["ok"], "max_steps": 400000000,
                             "bounds": f"type {t} dotu={dotu}: first string exactly {L} bytes (all symbolic)"})
        for dotu in ("false", "true"):
            if L > 60000:
                continue
            runs.append({"harness": "vxH01Stat", "args": [dotu, "1", str(L)], "files": F, "reach": ["ok"], "max_steps": 400000000, "bounds": f"stat alone, name of {L} bytes"})
    if bigK:
        for t in (110, 111):
            runs.append({"harness": "vxH01Msg", "args": [str(t), "false", "4", str(bigK), "1", "0"], "files": F, "reach": ["ok"], "bounds": f"type {t}: {bigK} names/qids"})
    if bigD:
        for t in (117, 118):
            runs.append({"harness": "vxH01Msg", "args": [str(t), "false", "1", "1", str(bigD), "0"], "files": F, "reach": ["ok"], "max_steps": 400000000, "bounds": f"type {t}: payload of {bigD} bytes"})
    return runs
def c01_cross():
    F = ["api", "ref_wire", "c01"]
    runs = []
    for sv in ("z3-new", "cvc5"):
        for t in (104, 110, 118, 125):
            for dotu in ("false", "true"):
                runs.append({"harness": "vxH01Msg", "args": [str(t), dotu, "3", "2", "4", "0"], "files": F, "raw": True, "solver": sv, "reach": ["ok"],
                             "bounds": f"cross-solver re-discharge with {sv}: type {t} dotu={dotu}, strings 0..3, payload 0..4"})
    return runs
w("C01", {
 "quick": c01(3, 2, 4, True, longs=(255, 256)),
 "thorough": c01(6, 2, 16, True, longs=(255, 256, 65535), bigK=16, bigD=8192) + c01_cross(),
 "outside": ["strings longer than 65535 bytes (not representable)", "several long strings in one message", "Akaros error format"],
 "assumptions": ["Twrite is checked under count == len(data) (the representable case)", "the oracle is harness/ref_wire.go, an independent layout table + little-endian encoder"],
})

# ---------------- C02 ----------------
def c02(nmax, statextra, strmax, fullhi):
    F = ["api", "ref_wire", "c02"]
    runs = []
    for dotu in ("false", "true"):
        runs.append({"harness": "vxH02Unpack", "args": [dotu, "0", str(nmax), "0", "-1"], "files": F, "reach": ["ok", "err"], "conc_cap": 200,
                     "bounds": f"every byte string of length 0..{nmax}, any type byte, dotu={dotu}"})
        smin = 7 + 2 + 49 + (14 if dotu == "true" else 0)
        for t, extra in ((125, 0), (126, 4)):
            lo = nmax + 1
            hi = min(fullhi + extra, smin + extra + statextra)
            runs.append({"harness": "vxH02Unpack", "args": [dotu, str(lo), str(hi), str(t), "-1"], "files": F, "reach": ["err"], "conc_cap": 200,
                         "bounds": f"every byte string of length {lo}..{hi} whose type byte is {t} (stat carrier), dotu={dotu}"})
            if hi < smin + extra + statextra:
                runs.append({"harness": "vxH02Unpack", "args": [dotu, str(hi + 1), str(smin + extra + statextra), str(t), str(strmax)], "files": F, "reach": ["ok", "err"], "conc_cap": 200,
                             "bounds": f"every byte string of length {hi+1}..{smin+extra+statextra} with type byte {t} whose stat strings are each <= {strmax} bytes, dotu={dotu}"})
        dmin = 49 + (14 if dotu == "true" else 0)
        dhi = min(dmin + statextra, fullhi - 9)
        runs.append({"harness": "vxH02Dir", "args": [dotu, "0", str(dhi), "-1"], "files": F, "reach": ["err"], "conc_cap": 200,
                     "bounds": f"UnpackDir on every byte string of length 0..{dhi}, dotu={dotu}"})
        if dhi < dmin + statextra:
            runs.append({"harness": "vxH02Dir", "args": [dotu, str(dhi + 1), str(dmin + statextra), str(strmax)], "files": F, "reach": ["ok", "err"], "conc_cap": 200,
                         "bounds": f"UnpackDir on every byte string of length {dhi+1}..{dmin+statextra} whose strings are each <= {strmax} bytes, dotu={dotu}"})
    return runs
def c02_cross():
    F = ["api", "ref_wire", "c02"]
    return [{"harness": "vxH02Unpack", "args": [dotu, "0", "20", "0", "-1"], "files": F, "reach": ["ok", "err"], "conc_cap": 200, "solver": sv,
             "bounds": f"cross-solver re-discharge with {sv}: every byte string of length 0..20, dotu={dotu}"} for sv in ("z3-new", "cvc5") for dotu in ("false", "true")]
w("C02", {
 "quick": c02(24, 3, 1, 62),
 "thorough": c02(32, 6, 2, 66) + c02_cross(),
 "outside": ["inputs longer than the stated lengths", "allocation threshold is deliberately loose: 16*len+2MiB (flags 32-bit-count driven allocations only)"],
 "assumptions": ["Dir.Size and Fcall.Size (derived length fields) are not compared across the re-encode round trip"],
})

# ---------------- C20 ----------------
def c20(rings, multis):
    F = ["api", "c20"]
    runs = []
    for (N, ops, P) in rings:
        runs.append({"harness": "vxH20Ring", "args": [str(N), str(ops)], "files": F, "preempt": P, "race": True, "reach": ["final", "filter-mid"], "timeout_s": 1500,
                     "bounds": f"capacity {N}, every sequence of {ops} Log/Filter calls (owner A/B/nil chosen, type symbolic) + final Filter; all schedules of caller vs logger goroutine with <= {P} preemptions; select choices exhaustive"})
    for (N, per, P) in multis:
        runs.append({"harness": "vxH20Multi", "args": [str(N), str(per)], "files": F, "preempt": P, "race": True, "reach": ["final"], "timeout_s": 1500,
                     "bounds": f"capacity {N}, two producers x {per} Logs, one concurrent Filter, <= {P} preemptions"})
    return runs
w("C20", {
 "quick": c20([(1, 3, 1), (2, 3, 1)], [(2, 2, 1)]),
 "thorough": c20([(1, 4, 2), (2, 4, 1), (3, 4, 1), (2, 5, 0)], [(2, 2, 2), (3, 2, 1)]),
 "outside": ["capacities > 3, more than 5 calls, more than 2 preemptions", "Resize"],
 "assumptions": ["goroutine schedules are explored at synchronisation granularity (channel operations); happens-before race detection runs on every explored schedule"],
})

# C20 burst runs are appended to the C20 props written above
_c20 = json.load(open(os.path.join(D, "C20.json")))
for tier, specs in (("quick", [(2, 18, 1), (3, 20, 0)]), ("thorough", [(2, 18, 2), (3, 20, 1), (1, 17, 1), (4, 35, 0)])):
    for (N, n, P) in specs:
        _c20[tier].append({"harness": "vxH20Burst", "args": [str(N), str(n)], "files": ["api", "c20"], "preempt": P, "race": True, "reach": ["final"], "timeout_s": 1500,
                           "bounds": f"capacity {N}, {n} Log calls back to back (the logger's queue holds 16), then a Filter with symbolic type after quiescence; <= {P} preemptions"})
for tier, specs in (("quick", [(3, 4, 2, 1), (2, 4, 3, 0)]), ("thorough", [(3, 6, 2, 2), (3, 6, 3, 1), (2, 6, 4, 0)])):
    for (N, n, callers, P) in specs:
        _c20[tier].append({"harness": "vxH20FilterConc", "args": [str(N), str(n), str(callers)], "files": ["api", "c20"], "preempt": P, "race": True, "reach": ["final"], "timeout_s": 1500,
                           "bounds": f"capacity {N}, {n} Log calls, then {callers} goroutines calling Filter at once with different owner/type; each result checked against its own arguments; <= {P} preemptions"})
json.dump(_c20, open(os.path.join(D, "C20.json"), "w"), indent=1)
