#!/usr/bin/env python3
# Generates the client-side run lists: props/C09.json, props/C10.json (complete) and the client fragments
# props/C13_clnt.frag.json, props/C14_clnt.frag.json (merged with the server halves by whoever owns C13/C14;
# `python3 gen_clnt.py --standalone <dir>` writes everything into <dir> instead, the fragments additionally as
# <dir>/C13.json and <dir>/C14.json, for testing the client halves alone with VERIF_DIR pointing at a scratch tree).
# Bounds live here. Timings (16 cores, z3 4.8.12) are noted next to each run.
import json, os, sys
D = os.path.dirname(os.path.abspath(__file__))
STANDALONE = "--standalone" in sys.argv
if STANDALONE:
    D = sys.argv[sys.argv.index("--standalone") + 1]
    os.makedirs(D, exist_ok=True)
STD_ASSUME = [
 "engine: gosym (this repository) interprets go/ssa of /repo's current tree; Go semantics as implemented in engine/*.go (validated by native witness replays on every run)",
 "solver: z3 4.8.12 (QF_BV over bit-vectors with Go's wrapping semantics)",
 "flag akaros == false (go9p.Akaros)",
 "fmt.Sprintf/log.* are modelled (formatting is not the subject): Sprintf is evaluated on concrete arguments, symbolic arguments print as '?'",
]
CLNT_ASSUME = [
 "transport: harness type vxCConn (harness/kit_clnt.go) in place of a socket: Read returns the next scripted segment, never (0,nil) for a non-empty buffer and (0,nil) for an empty one (as net.Conn does), io.EOF after the scripted end of stream (data queued before it is delivered first), an error after a local Close (Close wakes a parked Read, as on a real socket); Write records the bytes, never blocks, fails after Close or at the scripted point",
 "goroutine schedules are explored at synchronisation granularity (channel operations, Mutex.Lock, go statements): every choice of the next goroutine when the running one blocks, plus up to P preemptions at visible operations; the client's two service goroutines are first run to their initial wait (their start-up touches nothing shared)",
 "the scripted peer answers from inside the transport's Write (or, where stated, from its own goroutine); a reply reaches the client when its receive loop next reads, so reply timing is a schedule choice; all nondeterministic draws are made by the harness main goroutine",
 "schedule-dependent findings (HANG, RACE) are reported with the symbolic schedule; they are not forced natively",
]
def w(id, cfg):
    cfg["property"] = id
    cfg.setdefault("assumptions", []).extend(STD_ASSUME)
    json.dump(cfg, open(os.path.join(D, id + ".json"), "w"), indent=1)
def frag(name, cfg):
    json.dump(cfg, open(os.path.join(D, name), "w"), indent=1)
def b(x): return "true" if x else "false"

OPN = ["Read", "Write", "Stat", "Walk"]
def opsname(k, ops):
    return "/".join(OPN[(ops // 4**i) % 4] for i in range(k))
KN = ["matching R", "Rerror", "R of another type"]

# ---------------- C09 ----------------
F9 = ["api", "ref_wire", "kit_clnt", "c09"]
def h09rpc(k, ops, kindsel, ntags, dotu, seg, gopeer, P, race=True, timeout=600):
    kinds = "every combination of reply kinds (matching R / Rerror(2 symbolic text bytes, symbolic ecode) / R of another type)" if kindsel < 0 else \
            "reply kinds " + ", ".join(KN[(kindsel // 3**i) % 3] for i in range(k))
    return {"harness": "vxH09Rpc", "args": [str(k), str(ops), str(kindsel), str(ntags), b(dotu), b(seg), b(gopeer)], "files": F9, "preempt": P, "race": race,
            "reach": ["done"], "timeout_s": timeout,
            "bounds": f"{k} concurrent callers ({opsname(k, ops)}; symbolic offsets/data/names) + 1 follow-up call on one client "
                      f"({'NewClnt, 65535 tags' if ntags <= 0 else f'pool of {ntags} tags'}), dotu={b(dotu)}; {kinds}; every reply order, replies eager or after all requests; "
                      f"{'each reply whole or cut at byte 3 / 7 / len-1; ' if seg else ''}{'peer in its own goroutine; ' if gopeer else ''}all schedules with <= {P} preemptions"}
def h09pool(n, dotu):
    return {"harness": "vxH09Pool", "args": [str(n), b(dotu)], "files": F9, "preempt": 0, "race": True, "reach": ["done", "all-tags-outstanding"],
            "bounds": f"pool of 3 tags, all 27 distributions of the tags over free pool / cached slot / outstanding; 1 call then census, then {n} more consecutive calls then census; dotu={b(dotu)}"}
def h09recycle(n, ntags=24):
    return {"harness": "vxH09Recycle", "args": [str(n), str(ntags)], "files": F9, "reach": ["done"],
            "bounds": f"slot/tag conservation: {n} requests allocated at once (slot cache holds 16) from a pool of {ntags} tags, freed in either order, every tag available again and handed out distinct"}
def h09tag(n, cap, other, dotu, P, timeout=600):
    return {"harness": "vxH09Tag", "args": [str(n), str(cap), b(other), b(dotu)], "files": F9, "preempt": P, "race": True, "reach": ["done"], "timeout_s": timeout,
            "bounds": f"{n} Tag.Read requests under one tag, user channel capacity {cap}{', one ordinary call concurrently' if other else ''}; replies matching/Rerror (all combinations), eager or after all; TagFree; <= {P} preemptions"}
def h09burst(n, fsw):
    return {"harness": "vxH09TagBurst", "args": [str(n)], "files": F9, "preempt": 0, "free_switches": fsw, "race": True, "reach": ["done"],
            "bounds": f"{n} Tag.Read requests under one tag (the Tag's queue holds 16), all answered at once while the consumer is not reading, then drained; default schedule plus <= {fsw} other choices at blocking points"}
w("C09", {
 "quick": [
  h09burst(20, 2),
  h09rpc(2, 4, 3, 3, True, False, False, 1),           #  2814 paths,  3 s (all 9 kind combinations at P=1: 25326 paths, 25 s -> thorough)
  h09rpc(2, 4, 7, 3, False, False, False, 1),          #  2814 paths,  3 s
  h09rpc(2, 4, -1, 3, True, False, False, 0),          #   594 paths,  1 s
  h09rpc(2, 14, -1, 3, False, True, False, 0),         #  9504 paths,  7 s
  h09rpc(3, 36, 5, 3, True, False, False, 0),          # 13380 paths, 16 s
  h09rpc(1, 3, -1, 3, True, True, False, 2),           #  k=1, P=2
  h09rpc(2, 4, -1, 3, False, False, True, 0),          #  4320 paths,  5 s (goroutine peer)
  h09rpc(1, 0, -1, 0, True, False, False, 0),          #  real NewClnt (0.4M steps per path)
  h09pool(8, True),                                    #    27 paths
  h09recycle(1), h09recycle(16), h09recycle(17), h09recycle(20),
  h09tag(2, 16, False, True, 1),                       #  4048 paths,  2 s
  h09tag(3, 16, False, False, 0),                      #   552 paths
  h09tag(2, 16, True, True, 0),                        #  6668 paths,  4 s
  h09tag(2, 0, False, True, 0),                        #  1120 paths
 ],
 "thorough": [
  h09burst(20, 3), h09burst(24, 2),
  h09rpc(2, 4, -1, 3, True, False, False, 1),
  h09rpc(2, 14, -1, 3, False, True, False, 0),
  h09rpc(2, 4, 0, 3, True, False, False, 2, timeout=3000),     #  62364 paths,  61 s
  h09rpc(2, 14, 5, 3, True, False, False, 2, timeout=3000),    #  62364 paths,  67 s
  h09rpc(3, 36, 5, 3, True, False, False, 0),                  #  13380 paths,  22 s
  h09rpc(3, 36, -1, 3, False, False, False, 0, timeout=3000),  # 361260 paths, 477 s
  # (3 callers with 1 preemption did not finish within 3000 s under load: outside the claim)
  h09rpc(1, 0, -1, 3, True, True, False, 3), h09rpc(1, 1, -1, 3, False, True, False, 3), h09rpc(1, 2, -1, 3, True, True, False, 3), h09rpc(1, 3, -1, 3, False, True, False, 3),
  h09rpc(2, 4, -1, 3, False, False, True, 0), h09rpc(2, 4, 0, 3, True, False, True, 1),
  h09rpc(2, 4, -1, 0, True, False, False, 0, timeout=3000),
  h09pool(8, True), h09pool(20, False),
  h09recycle(1), h09recycle(3), h09recycle(16), h09recycle(17), h09recycle(18), h09recycle(23),
  h09tag(2, 16, False, True, 1), h09tag(3, 16, False, True, 1), h09tag(3, 16, False, False, 0), h09tag(2, 16, True, True, 0), h09tag(2, 0, False, True, 1), h09tag(3, 0, False, True, 0),
 ],
 "outside": ["more than 3 concurrent callers; more than 2 preemptions with 2 callers; any preemption with 3 callers (3 callers are explored over every choice of the next goroutine at blocking points only)", "the literal 65536-call run (replaced by the tag/slot conservation lemma H09.pool on a 3-tag pool plus more calls than tags)",
             "reply segmentation beyond whole / cut at 3 representative positions (every cut position is C13's H13.clnt)", "Pool.Put of an out-of-range id panics by design (excluded)",
             "random orders and delays for > 3 outstanding calls"],
 "assumptions": CLNT_ASSUME + ["callers are identified by concrete fid numbers; each caller's payload is a fixed function of its own (symbolic) request bytes computed by the peer from the raw frame with an independent decoder; the request on the wire is compared byte for byte with harness/ref_wire.go's encoding of the caller's arguments",
                "H09.rpc/H09.tag build the Clnt as a literal with exactly the fields NewClnt sets and a pool of 3 tags (NewClnt's 65535-iteration pool fill costs 0.4M interpreter steps on every re-executed path); one run per tier uses NewClnt itself"],
})

# ---------------- C10 ----------------
F10 = ["api", "ref_wire", "kit_clnt", "c10"]
MODES = {0: "stream cut", 1: "garbage frame (type byte 99)", 2: "frame announcing size 5", 3: "well-formed reply with an unknown tag", 4: "frame announcing size 8*msize+1 followed by 8*msize bytes, then end of stream",
         5: "Unmount() from another goroutine", 6: "transport refuses the a-th request (Write error)",
         7: "the peer stops reading (the Write of the a-th request blocks until the connection is closed locally) and sends a garbage frame",
         8: "[client built by NewClnt, 65535 tags] the peer stops reading (the Write of the a-th request blocks until the connection is closed locally) and sends a garbage frame"}
def h10(n, a, mode, bcut, P, race=False, timeout=600):
    where = "injected by the main goroutine while the callers enter Rpc" if a == 0 else f"at the arrival of request #{a}"
    cut = ""
    if mode == 0 and a > 0:
        cut = "after every byte offset 0..12 of that reply" if bcut < 0 else f"after {bcut} bytes of that reply"
    # mode 4 ends every path in the receive loop's panic on the current tree: no 'done' witness is demanded
    reach = [] if mode == 4 else ["done"]
    return {"harness": "vxH10Cut", "args": [str(n), str(a), str(mode), str(bcut), "true"], "files": F10, "preempt": P, "race": race, "reach": reach, "timeout_s": timeout,
            "bounds": f"{n} concurrent Clnt.Read callers + 1 later call, msize 32, pool of 4 tags (mode 8: NewClnt); requests before #{a} answered completely; failure: {MODES[mode]} {where} {cut}; all schedules with <= {P} preemptions"}
def c10(quick):
    runs = []
    # one caller: every mode, failure from outside (a=0) and at its own request (a=1)
    for mode in range(7):
        for a in (0, 1):
            if mode == 6 and a == 0:
                continue
            runs.append(h10(1, a, mode, -1 if (mode == 0 and a == 1) else 3, 2 if quick else 3))
    # the peer stops reading while a request is being written, then sends garbage
    runs.append(h10(1, 1, 7, 3, 2 if quick else 3))
    runs.append(h10(2, 1, 7, 3, 1))
    runs.append(h10(2, 2, 7, 3, 1))
    runs.append(h10(2, 1, 8, 3, 0))
    # two callers
    for mode, P in ((0, 1), (3, 1), (6, 1), (5, 0 if quick else 1), (1, 0 if quick else 1), (2, 0 if quick else 1), (4, 0 if quick else 1)):
        for a in (0, 1, 2):
            if mode == 6 and a == 0:
                continue
            runs.append(h10(2, a, mode, 3, P, race=(mode == 0)))
    if not quick:
        runs.append(h10(2, 1, 0, -1, 1))
        runs.append(h10(2, 2, 0, -1, 1))
        for a in (0, 1, 2, 3):
            runs.append(h10(3, a, 0, 3, 0))
            runs.append(h10(3, a, 5, 3, 0))
        for a in (0, 1, 2):
            runs.append(h10(2, a, 0, 3, 2, timeout=3000))
    return runs
w("C10", {
 "quick": c10(True),
 "thorough": c10(False),
 "outside": ["more than 3 outstanding calls, more than 2-3 preemptions", "a transport whose Write blocks for other reasons than the peer not reading one request (the stall mode blocks exactly one Write until the local Close)", "bounded *time*: the check decides 'returns at all' (no goroutine parked forever in a quiescent state), not a wall-clock deadline",
             "reply streams longer than 3 replies"],
 "assumptions": CLNT_ASSUME + ["'complete reply preceded the failure' is decided on the scripted stream for failures that are part of the stream (cut, bad frames); for Unmount and Write errors a reply queued before the failure may or may not have been read: both outcomes are accepted (three-valued), a success must carry the caller's exact payload",
                "a caller that never returns is reported as HANG: the harness main goroutine parks itself at a site named after the diagnosis once nothing else can run"],
})

# ---------------- C13 (client fragment) ----------------
F13 = ["api", "ref_wire", "kit_clnt", "c13_seg_clnt"]
def h13(msize, n, ncuts, window, mode, dotu, timeout=600):
    how = {0: f"every choice of {ncuts} cut position(s)" + (f" (consecutive cuts <= {window} bytes apart)" if window else ""), 1: "one byte per Read", 2: "one segment"}[mode]
    per4 = 19 + 7 + (15 if dotu else 11) + msize
    L = (n // 4) * per4 + sum([19, 7, (15 if dotu else 11), msize][: n % 4])
    return {"harness": "vxH13Clnt", "args": [str(msize), str(n), str(ncuts), str(window), str(mode), b(dotu)], "files": F13, "preempt": 0, "reach": ["done"], "timeout_s": timeout,
            "bounds": f"client msize {msize} (receive buffer {8*msize} bytes), {n} pipelined requests, reply stream of {L} bytes (Rread 8 data / Rclunk / Rerror / Rread of exactly msize bytes, out of request order, payload bytes symbolic), dotu={b(dotu)}: {how}"}
frag("C13_clnt.frag.json", {
 "quick": [
  h13(24, 14, 1, 0, 0, True),       # 220 paths, 1 s
  h13(24, 14, 1, 0, 0, False),
  h13(32, 14, 1, 0, 0, True),       # 244 paths
  h13(24, 14, 2, 12, 0, False),     # 2418 paths, 5 s
  h13(24, 3, 3, 0, 0, True),        # 9880 paths, 6 s
  h13(24, 28, 0, 0, 1, True), h13(24, 28, 0, 0, 2, True), h13(24, 28, 1, 0, 0, False),
 ],
 "thorough": [
  h13(24, 14, 1, 0, 0, True), h13(24, 14, 1, 0, 0, False), h13(32, 14, 1, 0, 0, True), h13(64, 14, 1, 0, 0, True),
  h13(24, 14, 2, 0, 0, True, timeout=1500),   # 24090 paths, 44 s
  h13(32, 14, 2, 0, 0, False, timeout=1500),
  h13(24, 4, 3, 0, 0, True, timeout=1500),    # C(64,3) = 41664 paths
  h13(24, 28, 2, 16, 0, True, timeout=1500),
  h13(24, 28, 0, 0, 1, True), h13(24, 28, 0, 0, 2, True), h13(24, 28, 1, 0, 0, False), h13(64, 28, 0, 0, 1, False),
 ],
 "outside": ["client: >= 4 independent cuts on long streams; msize > 64; replies larger than msize"],
 "assumptions": CLNT_ASSUME[:1] + ["H13.clnt: n requests are pipelined through the exported Clnt.Rpcnb with buffered Done channels (no caller goroutines), the reply stream is scripted by the harness; the reference is the stream's own content (independent encoder harness/ref_wire.go), so 'same as the one-segment delivery' follows by transitivity"],
})

# ---------------- C14 (client fragment) ----------------
F14 = ["api", "ref_wire", "kit_clnt", "c14_clnt"]
OPS14 = ["Clnt.Read", "File.Read x2", "File.ReadAt", "File.Readn", "Clnt.Write", "File.Write x2", "File.WriteAt", "File.Written"]
def h14(op, L, blen, dotu):
    reach = {0: ["done", "eof", "inside"], 1: ["done", "inside"], 2: ["done", "inside"], 3: ["full", "hit-eof"], 4: ["written"], 5: ["written"], 6: ["written"], 7: ["written"]}[op]
    Ls = {-1: "0..8", -2: "0, 1, 5, 8"}[L]
    bl = {-1: "0..8", -2: "0, 3, 8", 8: "8"}[blen]
    return {"harness": "vxH14Clnt", "args": [str(op), str(L), "-1", "-1", str(blen), b(dotu)], "files": F14, "preempt": 0, "reach": reach, "timeout_s": 1500,
            "bounds": f"{OPS14[op]}: file of {Ls} symbolic bytes, server iounit 0..4 (0: client derives 6 from msize 30), server moves at most count / 1 / 2 bytes per message, buffer of {bl} bytes, symbolic 64-bit offset"
                      + (" (<= 8 for writes)" if op >= 4 else "") + (", symbolic 32-bit count" if op == 0 else "") + f", dotu={b(dotu)}"}
def c14(quick):
    runs = []
    for op in range(8):
        for dotu in ((op % 2 == 0,) if quick else (False, True)):
            runs.append(h14(op, -2 if quick else -1, 8 if op == 0 else (-2 if quick else -1), dotu))
    for create in (False, True):
        for msize in (30, 128):
            runs.append({"harness": "vxH14Iounit", "args": [b(create), str(msize), b(create)], "files": F14, "preempt": 0, "reach": ["zero", "reported", "oversized"],
                         "bounds": f"{'Create' if create else 'Open'}: server iounit symbolic (32 bit), msize {msize}"})
    return runs
frag("C14_clnt.frag.json", {
 "quick": c14(True),
 "thorough": c14(False),
 "outside": ["client: files longer than 8 bytes / buffers longer than 8 (the loop shape repeats per iounit chunk)", "client: many files open at once (no shared state between Fids in these functions)", "client: iounit > 6"],
 "assumptions": CLNT_ASSUME[:1] + ["H14.clnt: the server is a model obeying H14.srv's read/write contract (exact bytes, empty at/after EOF, optional short transfers, never an empty read before EOF); the client side is the real Clnt with its real Rpc, service goroutines and codec",
                "the Ropen iounit rule is checked as: 0 < Fid.Iounit <= msize-IOHDRSZ always; == the server's value when that is in range; == msize-IOHDRSZ when the server reports 0 (a reported value that does not fit a message: any value in range is accepted)"],
})

# ---------------- C15 / C16 (client fragments) ----------------
F15 = ["api", "ref_wire", "kit_clnt", "c15_clnt"]
def h15(k, dotu):
    return {"harness": "vxH15Clnt", "args": [str(k), "-1", b(dotu)], "files": F15, "preempt": 0, "reach": ["done"],
            "bounds": f"File.Readdir(0) on a model directory server obeying the window rule: {k} entries of different sizes (name lengths 1,3,5; all field bytes symbolic), dotu={b(dotu)}, every msize from largest entry + IOHDRSZ to whole directory + IOHDRSZ + 1"}
def h15small(k, dotu):
    return {"harness": "vxH15Clnt", "args": [str(k), "-2", b(dotu)], "files": F15, "preempt": 0, "reach": ["done"],
            "bounds": f"File.Readdir(0), {k} entries, msize = first entry + IOHDRSZ (a later, larger entry does not fit and the server refuses it): a listing returned without error is complete; dotu={b(dotu)}"}
frag("C15_clnt.frag.json", {
 "quick": [h15(0, True), h15(1, False), h15(2, True), h15(3, False), h15small(2, False), h15small(3, True)],
 "thorough": [h15(k, d) for k in (0, 1, 2, 3) for d in (False, True)] + [h15small(k, d) for k in (2, 3) for d in (False, True)],
 "outside": ["client: more than 3 entries (Readdir's slice growth beyond 32 entries is not reached)", "client: Readdir(num != 0) (not part of the statement)"],
 "assumptions": CLNT_ASSUME[:1] + ["H15.clnt: the server is a model obeying H15.window (whole records, as many as fit count, error if the next one does not fit, empty at the end, offsets 0 / entry boundary only)"],
})
F16 = ["api", "ref_wire", "kit_clnt", "c16_fwalk_clnt"]
def h16(n, dotu):
    ns = "0..18" if n < 0 else str(n)
    return {"harness": "vxH16FWalk", "args": [str(n), b(dotu)], "files": F16, "preempt": 0, "reach": ["resolved", "missing", "done"],
            "bounds": f"Clnt.FWalk on a model walk server (chain tree): paths of {ns} elements of which a prefix of every length exists; plain / leading slash / doubled+trailing slashes; dotu={b(dotu)}"}
frag("C16_clnt.frag.json", {
 "quick": [h16(-1, True)],
 "thorough": [h16(-1, True), h16(-1, False)],
 "outside": ["client: more than 18 path elements (a third Twalk repeats the second's shape)", "client: names other than single letters (names are opaque to FWalk apart from '/')"],
 "assumptions": CLNT_ASSUME[:1] + ["H16.fwalk: the server is a model obeying the Twalk rules H16.walk establishes for Ufs"],
})

if STANDALONE:
    for pid in ("C13", "C14", "C15", "C16"):
        fr = json.load(open(os.path.join(D, pid + "_clnt.frag.json")))
        w(pid, fr)
