#!/bin/sh
# regenerate every props/<id>.json from the generators (order matters: fragments before merges)
set -e
cd "$(dirname "$0")"
python3 gen.py
python3 gen_ufs.py
python3 gen_clnt.py
[ -f gen_srv.py ] && python3 gen_srv.py
python3 gen_core.py
python3 - <<'PY'
import json, os
for pid in ("C14", "C15", "C16"):
    frag = pid + "_clnt.frag.json"
    if not os.path.exists(frag):
        continue
    cfg = json.load(open(pid + ".json")); f = json.load(open(frag))
    for k in ("quick", "thorough"):
        cfg[k] = cfg.get(k, []) + f.get(k, [])
    for k in ("assumptions", "outside"):
        cfg[k] = cfg.get(k, []) + [x for x in f.get(k, []) if x not in cfg.get(k, [])]
    if pid == "C14":
        # the end-to-end statement also rests on the server's reply path delivering what the implementation produced:
        # the C03 end-to-end lemma (with race detection) is part of this check
        c03 = json.load(open("C03.json"))
        for k in ("quick", "thorough"):
            extra = [r for r in c03[k] if r["harness"] == "vxH03E2E" and r["args"][:3] == ["2", "0", "0"]][:1]
            for r in extra:
                r = dict(r); r["bounds"] = "transport lemma shared with C03: " + r["bounds"]
                cfg[k].append(r)
        # ... and on both receive loops handing over payloads that later traffic does not disturb (C13's lemmas)
        c13 = json.load(open("C13.json"))
        for k in ("quick", "thorough"):
            srv = [r for r in c13[k] if r["harness"] == "vxH13Srv"][:1]
            cl = [r for r in c13[k] if r["harness"] == "vxH13Clnt"][:2]
            for r in srv + cl:
                r = dict(r); r["bounds"] = "receive-loop lemma shared with C13: " + r["bounds"]
                cfg[k].append(r)
    json.dump(cfg, open(pid + ".json", "w"), indent=1)
# C03's "no reply for a tag that is no longer outstanding" also covers replies that arrive after the Rflush of
# their request: one flush workload of C07 is part of the C03 check
c03 = json.load(open("C03.json")); c07 = json.load(open("C07.json"))
for k in ("quick", "thorough"):
    extra = [r for r in c07[k] if r["args"] in (["2", "1", "0", "true", "false"], ["0", "0", "2", "false", "false"], ["2", "0", "2", "true", "false"])][:2]
    for r in extra:
        r = dict(r); r["bounds"] = "flush lemma shared with C07 (a reply never follows the Rflush of its request; every Tflush answered): " + r["bounds"]
        c03[k].append(r)
json.dump(c03, open("C03.json", "w"), indent=1)
# C04's "told of the destruction of every fid exactly once" includes fids that a request is creating while the
# connection goes away: one disconnect workload of C11 (a Twalk to a new fid in flight at the hang-up) is part of C04
c04 = json.load(open("C04.json")); c11 = json.load(open("C11.json"))
for k in ("quick", "thorough"):
    extra = [r for r in c11[k] if r["harness"] == "vxH11" and r["args"][:3] == ["1", "1", "2"]][:1]
    for r in extra:
        r = dict(r); r["bounds"] = "destruction-exactly-once lemma shared with C11: " + r["bounds"]
        c04[k].append(r)
json.dump(c04, open("C04.json", "w"), indent=1)
# C05's "effects of a request are visible to every request sent after its reply" includes a clunk or remove answered
# while another request still executes on the fid: the H04.busy workloads are part of C05
c05 = json.load(open("C05.json"))
for k in ("quick", "thorough"):
    extra = [r for r in c04[k] if r["harness"] == "vxH04Busy" and r.get("preempt", 0) == 0]
    for r in extra:
        r = dict(r); r["bounds"] = "visibility lemma shared with C04: " + r["bounds"]
        c05[k].append(r)
json.dump(c05, open("C05.json", "w"), indent=1)
# C06: the Go runtime aborts the whole server on an unsynchronised map access ("concurrent map iteration and map
# write"): one disconnect workload of C11 with requests in flight runs under the race detector as part of C06
c06 = json.load(open("C06.json"))
for k in ("quick", "thorough"):
    extra = [r for r in c11[k] if r["harness"] == "vxH11" and r["args"][:3] == ["1", "2", "2"]][:1] or [r for r in c11[k] if r["harness"] == "vxH11" and r["args"][:3] == ["1", "1", "2"]][:1]
    for r in extra:
        r = dict(r); r["bounds"] = "hang-up with requests in flight, shared with C11 (an unsynchronised access to the fid table is a fatal runtime error): " + r["bounds"]
        c06[k].append(r)
json.dump(c06, open("C06.json", "w"), indent=1)
# C09's "never another call's reply or data" also rests on the client's receive loop leaving delivered payloads
# alone when later replies arrive: two client receive-loop lemmas of C13 are part of C09
c09 = json.load(open("C09.json")); c13 = json.load(open("C13.json"))
for k in ("quick", "thorough"):
    extra = [r for r in c13[k] if r["harness"] == "vxH13Clnt"][:2]
    for r in extra:
        r = dict(r); r["bounds"] = "receive-loop lemma shared with C13: " + r["bounds"]
        c09[k].append(r)
json.dump(c09, open("C09.json", "w"), indent=1)
PY
echo props regenerated
