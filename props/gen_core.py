#!/usr/bin/env python3
# Run specs for the server-framework properties written in-house: C03 C05 C06 C07 C11 C13(srv) C19.
import json, os, sys
sys.path.insert(0, os.path.dirname(os.path.abspath(__file__)))
from gen import w
SCHED = "goroutine schedules are explored at synchronisation granularity (channel operations, Mutex.Lock, go statements, voluntary yields at the implementation's entry); happens-before race detection is on for every explored schedule"
KIT = ["api", "ref_wire", "kit_srv", "kit_net"]

# ---------------- C05 ----------------
def c05():
    F = ["api", "kit_srv", "c05"]
    runs = []
    for k in (110, 112, 114, 116, 118):
        for auth in ("false", "true"):
            runs.append({"harness": "vxH05Step", "args": [str(k), auth], "files": F, "reach": ["refuse", "forward", "either"],
                         "bounds": f"one request of type {k} from an arbitrary fid state (Type any byte without QTAUTH, opened, Omode symbolic), msize any value >= 24, dotu symbolic, all request fields full-width symbolic; AuthOps={auth}"})
    runs.append({"harness": "vxH05Auth", "args": [], "files": F, "reach": ["attached", "not-attached"], "bounds": "Tattach with symbolic uid, afid in {none, valid auth fid, unknown}, AuthCheck accepting/refusing"})
    for k in (104, 110, 112, 114, 120, 122):
        runs.append({"harness": "vxH05Visible", "args": [str(k)], "files": F, "preempt": 2, "reach": ["done"], "bounds": f"type {k}: observer goroutine at the reply rendezvous, all schedules with <= 2 preemptions"})
    return runs
w("C05", {"quick": c05(), "thorough": c05(),
 "outside": ["multi-step histories (covered by C04's model)", "auth fids (QTAUTH) for I/O: the statement is silent"],
 "assumptions": ["three-valued reference rule harness/c05_rules.go:refRule transcribed from the statement; 'either' cases (OEXEC/OCEXEC corners, reads through unopened fids, create of a directory with mode != OREAD) produce no assertion", SCHED]})

def reset_run(wn, P, late=False):
    return {"harness": "vxH03Reset", "args": [str(wn), "true" if late else "false"], "files": KIT + ["reset_c03"], "preempt": P, "race": False, "reach": ["done"], "timeout_s": 1500,
            "bounds": f"a Tversion in mid-session while one request is held in the implementation, {wn} more wait behind it under the same tag and one under another tag; the held request returns after the Rversion; then attach and {'a new two-member group under the old tag while the aborted request is still executing' if late else 'three requests reusing the old tags'}; <= {P} preemptions (race detector off: a mid-session Tversion is outside C19's workloads)"}

# ---------------- C03 ----------------
def c03(e2e):
    F = KIT + ["c03"]
    runs = []
    for k in (1, 2, 3):
        runs.append({"harness": "vxH03Respond", "args": [str(k)], "files": F, "reach": ["done"], "bounds": f"{k} answers (any mix of Rstat/Rerror/Rclunk) to a request with arbitrary status bits"})
    for n in ((70,) if len(e2e) <= 4 else (70, 130)):
        runs.append({"harness": "vxH03Burst", "args": [str(n)], "files": F, "preempt": 0, "free_switches": -1, "reach": ["done"],
                     "bounds": f"{n} Treads outstanding at once (more than the 64 spare reply buffers a connection keeps), all held in the implementation and then released; deterministic schedule"})
    for wn, P in (((1, 1), (2, 0)) if len(e2e) <= 4 else ((0, 2), (1, 2), (2, 1), (3, 1))):
        runs.append(reset_run(wn, P))
    runs.append(reset_run(1, 1, True))
    runs.append({"harness": "vxH03Recycle", "args": [], "files": KIT + ["recycle_c03"], "preempt": 1 if len(e2e) <= 4 else 2, "race": False, "reach": ["done"], "timeout_s": 1500,
                 "bounds": "a Tread cancelled through a cancelling FlushOp while held in an implementation that fills the reply buffer in place (as Ufs.Read does) and returns before or after the next request arrives; the two following Treads carry exactly their own content; preemption-bounded schedules (race detector off: the implementation's late in-place fill is unordered with the flusher by construction)"})
    for (n, maxpend, outcome, oneseg, P) in e2e:
        # two goroutines of the implementation answering at once necessarily write the reply buffer concurrently:
        # that workload is outside C19, so the race detector is off for it
        runs.append({"harness": "vxH03E2E", "args": [str(n), str(maxpend), str(outcome), oneseg], "files": F, "preempt": P, "race": outcome != 5, "reach": ["done"], "timeout_s": 1500,
                     "bounds": f"{n} concurrent Tread/Twrite with distinct symbolic tags and offsets after Tversion/Tattach/Topen, Maxpend={maxpend}, implementation outcome={outcome} (0 ok, 1 error, 3 answers twice, 5 answers twice from two goroutines at once), one segment={oneseg}; every completion order; <= {P} preemptions"})
    return runs
w("C03", {
 "quick": c03([(2, 0, 0, "true", 1), (2, 1, 3, "false", 1), (2, 0, 1, "true", 0), (1, 0, 5, "true", 2)]),
 "thorough": c03([(2, 0, 0, "true", 2), (2, 1, 3, "false", 2), (2, 4, 1, "true", 2), (3, 0, 0, "true", 0), (3, 1, 3, "true", 0), (1, 0, 5, "true", 3), (2, 1, 5, "true", 1)]),
 "outside": ["more than 3 outstanding requests, more than 2 preemptions, any preemption with 3 requests (3 requests: every choice of the next goroutine at blocking and yield points only; 3 requests with 1 preemption did not finish in 25 minutes)", "real TCP", "Tversion with a tag other than NOTAG (protocol precondition)"],
 "assumptions": [SCHED, "reply content oracle: independent encoder harness/ref_wire.go"]})

# ---------------- C07 ----------------
def c07(combos, P):
    F = KIT + ["c07"]
    runs = []
    names = {0: "Twalk to a new fid", 1: "Topen", 2: "Tread", 3: "Tattach", 4: "Tclunk"}
    for (t, fop, var, hold, saved) in combos:
        reach = ["unknown-tag"] if var >= 3 else []
        runs.append({"harness": "vxH07", "args": [str(t), str(fop), str(var), "true" if hold else "false", "true" if saved else "false"], "files": F, "preempt": P, "race": True,
                     "reach": reach, "timeout_s": 1500,
                     "bounds": f"target {names[t]}; FlushOp={['none','no-op','cancels requests it was handed'][fop]}; variant={['one flush','two flushes of the target','flush of the flush','unknown old tag','a flush naming its own tag'][var]}; target held inside the implementation={hold}; implementation answers later (saved)={saved}; same/separate segments; all schedules of receiver, sender and workers with <= {P} preemptions"})
    return runs
Q7 = [(0,0,0,False,False), (1,0,0,False,True), (2,1,0,True,False), (0,2,0,True,False), (3,0,0,False,False), (4,0,0,True,False), (0,0,3,False,False), (2,0,2,True,False), (0,0,4,False,False), (0,1,4,False,False)]
T7 = [(t,f,v,h,s) for t in range(5) for f in (0,2) for v in (0,1,2) for h in (False,True) for s in (False,) if not (f == 2 and not h)] + [(1,0,0,False,True), (2,1,0,True,True), (0,0,3,False,False), (0,0,4,False,False), (0,2,4,False,False)]
w("C07", {"quick": c07(Q7, 1), "thorough": c07(T7, 1) + c07([(0,0,0,False,False), (2,2,0,True,False)], 2),
 "outside": ["flushes inside shared-tag groups", "a target that never returns from the implementation (the harness always releases it eventually)", "more than 2 preemptions"],
 "assumptions": [SCHED, "a FlushOp implementation calls req.Flush() only for requests it has been handed (it synchronises with its own workers)", "an implementation that answers a saved request later hands it over through a synchronising channel"]})

# ---------------- C11 ----------------
def c11(combos, P):
    F = KIT + ["c11"]
    runs = []
    kn = {0: "Tread", 1: "Tclunk", 2: "Twalk creating a fid"}
    for (nf, w, k0, k1, mp, mid) in combos:
        runs.append({"harness": "vxH11", "args": [str(nf), str(w), str(k0), str(k1), str(mp), "true" if mid else "false"], "files": F, "preempt": P, "race": True, "reach": ["done"], "timeout_s": 1500,
                     "bounds": f"victim with {['fid 0 attached','+ fid 1 walked','+ fid 1 open'][nf]}; {w} requests held in the implementation at the disconnect ({kn[k0]}{', '+kn[k1] if w==2 else ''}), released afterwards in every order; Maxpend={mp}; mid-frame={mid}; bystander connection; <= {P} preemptions"})
    return runs
def c11wf(P):
    return [{"harness": "vxH11WriteFail", "args": [str(mp), str(sec)], "files": KIT + ["c11"], "preempt": P, "race": True, "reach": ["done"],
             "bounds": f"the peer stops reading: the Write of a reply blocks, {['a Tversion','a Tstat'][sec]} arrives meanwhile, then the Write fails; Maxpend={mp}; <= {P} preemptions"} for mp in (0, 1) for sec in (0, 1)]
def c11reuse(P):
    return [{"harness": "vxH11Reuse", "args": ["true" if rf else "false"], "files": KIT + ["c11"], "preempt": P, "race": True, "reach": ["done"], "timeout_s": 1500,
             "bounds": f"fid 1 clunked while a Tstat on it is held in the implementation, the number bound again by a Twalk, then the hang-up {'after' if rf else 'before'} the held request returns; <= {P} preemptions"} for rf in (True, False)]
def c11ufs():
    return [{"harness": "vxH11Ufs", "args": [], "files": ["api", "ref_wire", "kit_srv", "kit_net", "kit_fs", "ufs_c11"], "preempt": 0, "free_switches": -1, "reach": ["done"],
             "bounds": "Ufs (9P2000.u) on the model file system: a file and a directory open through two fids, a hard-link create (DMLINK) onto an existing or a free name, naming a valid or an unknown fid, then the hang-up: every descriptor closed exactly once; deterministic schedule"}]
w("C11", {"quick": c11wf(1) + c11reuse(1) + c11ufs() + c11([(0,0,0,0,0,False), (2,1,0,0,0,False), (2,1,1,0,0,True), (1,1,2,0,1,False), (1,2,2,1,0,False)], 1),
 "thorough": c11wf(2) + c11reuse(2) + c11ufs() + c11([(nf,w_,k0,k1,mp,mid) for nf in (0,1,2) for (w_,k0,k1) in ((0,0,0),(1,0,0),(1,1,0),(1,2,0),(2,0,1),(2,2,1)) for mp in (0,1) for mid in (False,True) if not (nf == 0 and k0 == 1)], 1),
 "outside": ["more than 2 requests executing at the disconnect, more than 1 preemption", "write errors other than one stalled-then-failing Write"],
 "assumptions": [SCHED, "rewrite_os: native replays of the Ufs run redirect os calls to the model file system"],
 "rewrite_os": True})

# ---------------- C06 ----------------
TT = [100, 102, 104, 108, 110, 112, 114, 116, 118, 120, 122, 124, 126]
def c06(msizes, auths, frameN, frameMsize, unpackN):
    F = KIT + ["c06"]
    runs = []
    for dotu in ("false", "true"):
        runs.append({"harness": "vxH02Unpack", "args": [dotu, "0", str(unpackN), "0", "-1"], "files": ["api", "ref_wire", "c02"], "reach": ["ok", "err"], "conc_cap": 200,
                     "bounds": f"Unpack on every byte string of length 0..{unpackN}, dotu={dotu} (shared with C02)"})
    for t in TT:
        for a in auths:
            for m in msizes:
                runs.append({"harness": "vxH06Step", "args": [str(t), a, str(m)], "files": F, "reach": ["done"],
                             "bounds": f"one request of type {t} through Process() and the send step: fid/afid/newfid in {{valid file-or-dir fid with symbolic (type, opened, omode, diroffset), valid dir fid, absent, NOFID, auth fid}}, every scalar field full-width symbolic, names <= 1 byte, 0..2 walk names, implementation outcome ok/error/no answer/partial walk, 0- or 40-byte error text, msize {m}, AuthOps={a}"})
    runs.append({"harness": "vxH06Frame", "args": [str(frameN), str(frameMsize)], "files": F, "reach": ["done"], "timeout_s": 2400,
                 "bounds": f"running server, msize {frameMsize}: every byte string of length 0..{frameN} arrives as one segment on one connection; bystander and later connections must still be served"})
    for (t, n) in ((100, 19), (102, 19), (104, 23), (108, 9), (110, 20), (110, 17), (112, 12), (114, 22), (116, 23), (118, 25), (120, 11), (122, 11), (124, 11), (126, 13)):
        runs.append({"harness": "vxH06Session", "args": [str(t), str(n), "64"], "files": F, "preempt": 0, "free_switches": -1, "reach": ["done"],
                     "bounds": f"live session (Tversion, Tattach, Twalk, Topen done; AuthOps+FlushOp implementation answering ok/error): one frame of type {t} and {n} bytes whose tag and whole body are symbolic goes through receive loop, decoder, worker, implementation, reply path and sender; msize 64; deterministic schedule"})
    for dotu in ("false", "true"):
        runs.append({"harness": "vxH06Reneg", "args": [dotu], "files": ["api", "ref_wire", "kit_srv", "kit_net", "kit_fs", "reneg_c06"], "preempt": 0, "free_switches": -1, "reach": ["done"],
                     "bounds": f"Ufs session: Tversion with symbolic msize 24..40, a second Tversion with any 32-bit msize, attach, open the root directory, Tread with any 32-bit count, Tstat; dotu={dotu}"})
    for fop in ("false", "true"):
        runs.append({"harness": "vxH06Flush", "args": [fop], "files": KIT + ["flush_c06"], "preempt": 1, "reach": ["done"],
                     "bounds": f"live session with a Tread held inside the implementation: a Tflush with any tag and any old tag (the held request, itself, nothing), FlushOp={fop}; the held request returns, a further request follows; <= 1 preemption"})
    for dotu in ("false", "true"):
        runs.append({"harness": "vxH06UfsAuth", "args": [dotu], "files": ["api", "ref_wire", "kit_srv", "kit_net", "kit_fs", "reneg_c06"], "preempt": 0, "free_switches": -1, "reach": ["done"],
                     "bounds": f"Ufs session: Tauth with any afid, attach, attach naming an existing fid as afid, attach with a 2-byte symbolic aname, Tclunk of any fid, hang-up with fids alive; dotu={dotu}"})
    for dotu in ("false", "true"):
        runs.append({"harness": "vxH15Window", "args": [dotu, "4", "8", "true"], "files": ["api", "ref_wire", "kit_srv", "kit_fs", "c15_dirread"], "reach": ["arbitrary-offset"],
                     "bounds": f"Ufs directory Tread at an arbitrary 64-bit offset and 32-bit count on an arbitrary valid snapshot (<= 4 entries), dotu={dotu}"})
        runs.append({"harness": "vxH14Read", "args": [dotu, "8", "10"], "files": ["api", "ref_wire", "kit_srv", "kit_fs", "c14_data"], "reach": [],
                     "bounds": f"Ufs file Tread with symbolic 64-bit offset / 32-bit count, dotu={dotu}"})
    return runs
w("C06", {"quick": c06([24, 8216], ["true"], 14, 24, 24), "thorough": c06([24, 64, 8216], ["false", "true"], 20, 32, 32),
 "outside": ["panics inside the Go runtime or the kernel; memory exhaustion other than C02's allocation bound", "frames longer than the stated lengths arriving at a live connection (the decoder itself is covered to 24/32 bytes by the Unpack runs, request execution by the one-step runs from arbitrary states)", "Ufs requests other than reads are covered for panics by the C14-C18 checks (every engine run carries the panic VCs)"],
 "assumptions": [SCHED, "pre-state invariant of the one-step runs: auth fids carry QTAUTH and are created only by Tauth; other fids never carry it", "rewrite_os: native replays of the Ufs runs redirect os calls to the model file system"],
 "rewrite_os": True})

# ---------------- C13 ----------------
def merge_frag(cfg, name):
    p = os.path.join(os.path.dirname(os.path.abspath(__file__)), name)
    if os.path.exists(p):
        frag = json.load(open(p))
        for k in ("quick", "thorough"):
            cfg[k] = cfg[k] + frag.get(k, [])
        for k in ("assumptions", "outside"):
            cfg[k] = cfg.get(k, []) + frag.get(k, [])
    return cfg
def c13(combos):
    F = KIT + ["c13_seg_srv"]
    runs = []
    for (msize, nreq, pay, ncuts) in combos:
        what = "one byte at a time" if ncuts < 0 else f"every choice of {ncuts} cut position(s)"
        runs.append({"harness": "vxH13Srv", "args": [str(msize), str(nreq), str(pay), str(ncuts)], "files": F, "preempt": 0, "free_switches": -1, "reach": ["done"], "timeout_s": 2400,
                     "bounds": f"server receive loop, msize {msize} (8*msize receive buffer): stream of {nreq} requests (Twrite with {pay}-byte symbolic payload / Tstat / Tread, symbolic offsets) delivered under {what} vs. in one segment; deterministic goroutine schedule (segmentation is the subject)"})
    return runs
def c13s(combos):
    F = KIT + ["c13_seg_srv"]
    return [{"harness": "vxH13SrvSession", "args": [str(m), "true" if d else "false", str(n), str(c)], "files": F, "preempt": 0, "free_switches": -1, "reach": ["done"], "timeout_s": 2400,
             "bounds": f"whole session as one stream on a .u server with msize 8192: Tversion(msize {m}, {'9P2000.u' if d else '9P2000'}) and {n} independent Tattach requests with symbolic attach names, delivered under {'one byte at a time' if c < 0 else f'every choice of {c} cut position(s)'} vs. one segment"} for (m, d, n, c) in combos]
def c13o(combos):
    return [{"harness": "vxH13SrvOversize", "args": [str(m), str(c)], "files": KIT + ["c13_seg_srv", "over_c13"], "preempt": 0, "free_switches": -1, "reach": ["done"], "timeout_s": 1500,
             "bounds": f"server receive loop, msize {m}: two requests, a well-formed frame of msize+17 bytes, another request; one segment and {'one byte at a time' if c < 0 else f'every choice of {c} cut position(s)'}: the oversize frame and what follows it are never executed or answered and the connection is dropped, under every segmentation"} for (m, c) in combos]
def c13e(ms):
    return [{"harness": "vxH13SrvEdge", "args": [str(m)], "files": KIT + ["c13_seg_srv"], "preempt": 0, "free_switches": -1, "reach": ["done"],
             "bounds": f"server receive loop, msize {m}: a stream laid out so that a message boundary falls 0..4 bytes before the end of the 8*msize receive buffer, delivered in one segment (the read fills the buffer to its last byte) vs. message by message"} for m in ms]
w("C13", merge_frag({"quick": c13([(32, 15, 3, 1), (32, 7, 3, 2), (32, 15, 3, -1), (64, 6, 9, 1)]) + c13s([(32, False, 3, 1), (32, True, 3, 1), (64, False, 4, -1)]) + c13e([32, 64]) + c13o([(32, 1), (32, -1)]),
 "thorough": c13([(32, 30, 3, 1), (32, 15, 3, 2), (32, 5, 3, 3), (32, 30, 3, -1), (64, 30, 9, 1), (64, 12, 9, 2)]) + c13s([(32, False, 12, 1), (32, True, 12, 1), (32, False, 4, 2), (64, True, 6, 2), (32, False, 12, -1)]) + c13e([32, 48, 64, 100, 128]) + c13o([(32, 1), (32, 2), (32, -1), (64, 1), (64, -1)]),
 "outside": ["4 or more independent cuts on long streams; msize > 64", "interleavings of the worker goroutines (covered by C03/C08)"],
 "assumptions": [SCHED]}, "C13_clnt.frag.json"))

# ---------------- C19 ----------------
def c19(P, clnt):
    runs = []
    UF = ["api", "ref_wire", "kit_srv", "kit_net", "kit_fs", "c19_ufs"]
    for (dotu, batch) in (("false", 0), ("true", 1)):
        runs.append({"harness": "vxH19Ufs", "args": [dotu, str(batch)], "files": UF, "preempt": P, "free_switches": 2, "race": True, "reach": ["done"], "timeout_s": 2400,
                     "bounds": f"Ufs on the model file system through Srv.NewConn: two Twalks from one shared fid{' + a Tread on another fid' if batch else ''} outstanding together, dotu={dotu}; <= {P} preemptions, <= 2 non-default choices at blocking points"})
    runs.append({"harness": "vxH19UfsWrite", "args": ["32", "8"], "files": UF, "preempt": P, "free_switches": -1, "race": True, "reach": ["done"], "timeout_s": 2400,
                 "bounds": f"Ufs (msize 32, 256-byte receive buffer): a Twrite executing while 8 msize-sized requests on other (unknown) fids arrive and wrap the receive buffer; <= {P} preemptions, deterministic successor at blocking points"})
    runs.append({"harness": "vxH19Conns", "args": [], "files": KIT + ["c19_conns"], "preempt": 1, "free_switches": P, "race": True, "reach": ["done"], "timeout_s": 2400,
                 "bounds": f"a second connection is opened, attached and dropped while the first has requests on two different fids in flight; <= 1 preemption, <= {P} non-default choices at blocking points (2 preemptions did not finish in 40 minutes)"})
    runs.append({"harness": "vxH03E2E", "args": ["2", "0", "0", "true"], "files": KIT + ["c03"], "preempt": P, "race": True, "reach": ["done"], "timeout_s": 2400,
                 "bounds": f"server framework with a scripted implementation: 2 concurrent requests, every completion order, <= {P} preemptions (workload of C03)"})
    runs.append({"harness": "vxH07", "args": ["0", "0", "0", "false", "false"], "files": KIT + ["c07"], "preempt": P, "race": True, "reach": [], "timeout_s": 2400,
                 "bounds": f"a Twalk and its Tflush interleaved in every way, <= {P} preemptions (workload of C07)"})
    runs.append({"harness": "vxH19Users", "args": [], "files": KIT + ["c19_conns"], "preempt": min(P, 1), "free_switches": P, "race": True, "reach": ["done"], "timeout_s": 2400,
                 "bounds": f"attaches with different uids on two connections at once, resolved through the library's own user pool (OsUsers), one uid new and the other new or known; <= {min(P, 1)} preemption, <= {P} non-default choices at blocking points"})
    runs += clnt
    return runs
CL9 = ["api", "ref_wire", "kit_clnt", "c09"]
def c19clnt(P):
    return [{"harness": "vxH09Rpc", "args": ["2", "4", "3", "3", "true", "false", "false"], "files": CL9, "preempt": P, "race": True, "reach": ["done"], "timeout_s": 2400,
             "bounds": f"one client shared by 2 concurrent callers (Read, Write) + 1 follow-up call, replies in every order (matching R / Rerror), <= {P} preemptions (workload of C09)"}]
w("C19", {"quick": c19(1, c19clnt(1)), "thorough": c19(2, c19clnt(2)), "witnesses": 2,
 "outside": ["races that need more than 2 preemptions or more than 3-4 concurrent requests", "races between two instructions of harness-owned state (exempt by construction)", "workloads the statement excludes: two non-walk requests on the same fid at once, Tversion in mid-session, dropping a connection with requests outstanding"],
 "assumptions": [SCHED, "a race is two conflicting accesses by library (non-harness) code that are unordered by the Go memory model's happens-before edges (go, channel send/receive/close, Mutex, atomics) in an explored schedule; RACE findings are confirmed natively by go test -race on the same workload"],
 "rewrite_os": True})
