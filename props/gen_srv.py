#!/usr/bin/env python3
# Generates props/C04.json, C08.json, C12.json (server-framework properties) — bounds live here.
# Same format as gen.py; file sets are named precisely (kit_srv, kit_net — not "kit").
import json, os
D = os.path.dirname(os.path.abspath(__file__))
STD_ASSUME = [
 "engine: gosym (this repository) interprets go/ssa of /repo's current tree; Go semantics as implemented in engine/*.go (validated by native witness replays on every run)",
 "solver: z3 4.8.12 (QF_BV over bit-vectors with Go's wrapping semantics)",
 "flag akaros == false (go9p.Akaros)",
 "fmt.Sprintf/log.* are modelled (formatting is not the subject): Sprintf is evaluated on concrete arguments, symbolic arguments print as '?'",
]
SCHED_ASSUME = "goroutine schedules are explored at synchronisation granularity (channel operations, Mutex.Lock, go statements, explicit yields inside the scripted implementation); a switch away from a goroutine that could continue costs one unit of the stated preemption bound, switches at blocking points are free and exhaustive"
def w(id, cfg):
    cfg["property"] = id
    cfg.setdefault("assumptions", []).extend(STD_ASSUME)
    json.dump(cfg, open(os.path.join(D, id + ".json"), "w"), indent=1)
def b(x): return "true" if x else "false"

# ---------------- C04 ----------------
F04 = ["api", "ref_wire", "kit_srv", "kit_net", "c04"]
SETUPS = {0: "empty table", 1: "attach f0", 2: "attach f0, walk f0->f1 (file or directory)", 3: "attach f0, walk f0->f1, open f1",
          4: "attach f0, walk f0->f1, open f1, auth a0", 5: "two connections, each with its own fid 0 (different users)"}
def c04(nsym, setups, slim=False):
    runs = []
    for s, auth in setups:
        what = ("one fully symbolic request" if nsym == 1 else "two consecutive fully symbolic requests (users given by matching name and number)")
        if slim:
            what += "; the first of them ranges over the 7 types whose replies can change the table (Tauth, Tattach, Twalk, Topen, Tcreate, Tclunk, Tremove), f1 is a directory"
        runs.append({"harness": "vxH04Hist", "args": [str(s), b(auth), str(nsym), b(slim)], "files": F04, "reach": ["done"], "timeout_s": 1500,
            "bounds": f"setup '{SETUPS[s]}', implementation {'with' if auth else 'without'} AuthOps; then {what}: any of the 13 T-types, "
                      "fid/newfid/afid each over {0,1,2,NOFID} (present, absent, NOFID), mode/perm/count/offset/msize full-width symbolic, 0..2 walk names, "
                      "implementation outcome success / error / partial walk of every shorter length, user by name+number / name only / unknown, dialect symbolic; "
                      "then Tstat probes of fids 0..2 on both connections, Tclunk of every fid the model holds valid, probes again, FidDestroy log checked"})
    return runs
ALL = [(s, a) for s in (0, 1, 2, 3, 5) for a in (False, True)] + [(4, True)]
def busy(P):
    runs = []
    for rm in (False, True):
        for rb in (False, True):
            r = {"harness": "vxH04Busy", "args": [b(rm), b(rb)], "files": ["api", "ref_wire", "kit_srv", "kit_net", "c04_busy"], "preempt": P, "race": True, "reach": ["done"], "timeout_s": 1500,
                 "bounds": f"live connection: fid 1 is {'removed' if rm else 'clunked'} while a Tstat on it is held inside the implementation; then " +
                           ("a Twalk binds the number again, the held request returns, the new fid is used, hang-up" if rb else "a Tstat names the clunked fid, the held request returns, hang-up") +
                           (f"; all schedules with <= {P} preemptions" if P > 0 else "; deterministic schedule")}
            if P == 0:
                r["free_switches"] = -1
            runs.append(r)
    return runs
w("C04", {
 "quick": c04(1, ALL) + busy(0) + busy(1)[1:2],
 "thorough": c04(1, ALL) + c04(2, [(0, False), (5, True)]) + c04(2, [(2, False), (4, True)], slim=True) + busy(0) + busy(2),
 "outside": ["histories that need three or more arbitrary requests after the setup prefix to expose a fault", "more than 3 fid numbers, more than 2 connections, more than 2 users",
             "requests issued concurrently, except a clunk/remove of a fid that another request is executing on (H04.busy) and a fid being created at the hang-up (lemma shared with C11); other concurrency is C03/C07/C08/C19",
             "NOFID used as the fid a Tauth/Tattach/Twalk would bind: any refusal accepted, and a fid bound to the number NOFID is not expected in the FidDestroy log (the statement is silent)",
             "which error is reported when several refusals apply (walk from an open fid / non-directory to a bound newfid; Tauth/Tattach whose user is not given by matching name and number)"],
 "assumptions": ["oracle: reference fid-table model of DESIGN Appendix B.3 in harness/c04_fids.go (valid fids and their users per connection), advanced by the replies, compared through Tstat probes, refusals and the FidDestroy log",
                 "request structures are built as Unpack leaves them: fid fields a message type does not carry are NOFID; Tversion carries NOTAG; a Tflush does not name its own tag",
                 "the scripted implementation returns non-authentication qids from attach/walk/open/create",
                 "Tread on an authentication fid: count <= 3 or count > 8192 (the reply buffer is sliced by count; values otherwise free)",
                 "'no later than the reply' is observed as: at the FidDestroy call no reply of that step is in the connection's reply queue yet"],
})

# ---------------- C08 ----------------
F08 = ["api", "ref_wire", "kit_srv", "kit_net", "c08"]
TT = [100, 102, 104, 108, 110, 112, 114, 116, 118, 120, 122, 124, 126]
def spawn(mp):
    return {"harness": "vxH08Spawn", "args": [str(mp)], "files": F08, "preempt": 1, "reach": ["free-tag", "pending-tag", "tversion"],
            "bounds": f"real Srv.NewConn on a scripted transport, Maxpend={mp}; one receive step in 4 situations (nothing pending / another request parked in the implementation / same tag pending / Tversion while one is parked); tags and offset symbolic; <= 1 preemption"}
def nolock(t, auth, flush):
    reach = ["done"]
    return {"harness": "vxH08NoLock", "args": [str(t), b(auth), b(flush)], "files": F08, "reach": reach,
            "bounds": f"T-type {t}, AuthOps={b(auth)}, FlushOp={b(flush)}: every path of Process() from a fid of symbolic type/opened/omode, fid operand existing/directory/unknown, newfid same/new/bound/NOFID, afid none/valid/unknown, all scalar fields symbolic, implementation outcome ok/error/no answer/two answers/partial walk; Tflush target absent/not started/working/saved/working walk holding the last reference of its new fid"}
def block(n, mp, yld, one, staged, P, t=1500):
    return {"harness": "vxH08Block", "args": [str(n), str(mp), b(yld), b(one), b(staged)], "files": F08, "preempt": P, "reach": ["done"], "timeout_s": t,
            "bounds": f"{n} requests with distinct symbolic tags on connection 1 (one of them parked forever inside the implementation: "
                      + ("it arrives first and is parked before the others are issued" if staged else "at any position of the arrival order") +
                      f") + 1 request on connection 2 (any tag), Maxpend={mp}, requests of connection 1 in {'one segment' if one else 'separate segments'}, "
                      f"implementation {'yields before answering' if yld else 'answers at once'}; all schedules with <= {P} preemptions; request data concrete (reads/writes told apart by offset)"}
def fifo(g, mp, yld, one, P, t=1500, fsw=None):
    r = fifo0(g, mp, yld, one, P, t)
    if fsw is not None and fsw != 0:
        r["free_switches"] = fsw
        r["bounds"] += (", deterministic successor at blocking points" if fsw < 0 else f", <= {fsw} non-default choices at blocking points")
    return r
def fifo0(g, mp, yld, one, P, t=1500):
    return {"harness": "vxH08Fifo", "args": [str(g), str(mp), b(yld), b(one)], "files": F08, "preempt": P, "reach": ["done"], "timeout_s": t,
            "bounds": f"{g} requests sharing one symbolic tag + 1 request with another tag inserted at every position, Maxpend={mp}, {'one segment' if one else 'separate segments'}, "
                      f"implementation {'yields before answering' if yld else 'answers at once'}; all schedules with <= {P} preemptions; request data concrete (members told apart by offset)"}
def fifolate(mp, P):
    return {"harness": "vxH08FifoLate", "args": [str(mp)], "files": F08, "preempt": P, "reach": ["done"], "timeout_s": 1500,
            "bounds": f"3 requests sharing one symbolic tag, the third arriving after the first was answered while the second is held inside the implementation; Maxpend={mp}; <= {P} preemptions"}
def dispatcher(mp, P):
    return {"harness": "vxH08Dispatcher", "args": [str(mp)], "files": F08, "preempt": P, "reach": ["done"], "timeout_s": 1500,
            "bounds": f"an implementation answering from one dispatcher goroutine: two requests sharing a symbolic tag (the second slow inside the implementation) and an unrelated request; Maxpend={mp}; <= {P} preemptions"}
def reset08(wn, P, late=False):
    return {"harness": "vxH03Reset", "args": [str(wn), "true" if late else "false"], "files": ["api", "ref_wire", "kit_srv", "kit_net", "reset_c03"], "preempt": P, "reach": ["done"], "timeout_s": 1500,
            "bounds": f"tag groups across a session reset: a Tversion in mid-session while one request is held in the implementation and {wn} more wait behind it under the same tag; afterwards {'a new group under that tag, formed while the aborted request still executes, runs one at a time in order' if late else 'requests reusing that tag are started and answered'}; <= {P} preemptions"}
q08 = [reset08(1, 1), reset08(2, 0), reset08(1, 1, True), reset08(0, 1, True), spawn(0), spawn(2), fifolate(0, 1), fifolate(2, 1), dispatcher(0, 1), dispatcher(2, 1)]
q08 += [{"harness": "vxH08NoLockTwin", "args": [], "files": F08, "reach": ["twin"], "bounds": "twin: a call into the implementation made with a lock held is detected"}]
q08 += [nolock(t, a, f) for t in TT for (a, f) in ((True, True), (False, False))]
q08 += [block(2, 0, False, True, True, 1), block(2, 2, True, True, True, 0), block(2, 0, False, True, False, 0),
        fifo(2, 0, False, False, 1), fifo(2, 2, True, False, 0), fifo(3, 0, False, True, 0), fifo(4, 0, False, True, 0, fsw=1), fifo(6, 2, False, True, 0, fsw=0)]
t08 = list(q08) + [reset08(2, 1), reset08(3, 1)] + [nolock(t, a, f) for t in TT for (a, f) in ((True, False), (False, True))]
t08 += [block(3, 0, True, True, True, 0), block(3, 2, True, True, True, 0), block(2, 0, True, True, False, 0), block(2, 2, False, True, True, 1),
        block(2, 0, False, False, True, 1), block(3, 2, False, True, False, 0), block(3, 0, False, True, True, 1), block(2, 0, False, True, False, 1),
        fifo(3, 0, True, True, 0), fifo(3, 2, True, False, 0), fifo(3, 0, False, True, 1), fifo(3, 2, False, True, 1), fifo(2, 2, False, False, 1), fifo(2, 0, True, True, 1), fifo(8, 0, False, True, 0, fsw=-1), fifo(7, 0, False, True, 0, fsw=1), fifo(5, 2, True, True, 0, fsw=1), fifo(4, 0, False, False, 0, fsw=2)]
w("C08", {
 "quick": q08,
 "thorough": t08,
 "outside": ["more than 3 requests on the blocked connection, more than one request held blocked, more than one other connection", "tag groups of more than 3 requests under all schedules (groups of 4..8 under reduced schedule sets, stated per run)",
             "schedules needing more than the stated number of preemptions (quick: 1; the 3-request schedule harnesses run with 0 preemptions + yields inside the implementation)",
             "Tflush inside a tag group (C07)", "real TCP; the writer's behaviour on write errors (C11)"],
 "assumptions": [SCHED_ASSUME,
                 "vxHeldLocks() counts the sync.Mutex/RWMutex locks held by the calling goroutine (engine fact; natively 0, so the lock assertions are guarded by vxSymbolic())",
                 "H08.spawn identifies 'a goroutine of its own' by the number of goroutines ever created (engine fact) and, behaviourally, by the request being answered while another one is parked inside the implementation",
                 "Tversion carries NOTAG (DESIGN section 6, last row)"],
})

# ---------------- C12 ----------------
F12 = ["api", "ref_wire", "kit_srv", "kit_net", "c12"]
def version(k):
    v = {0: "'9P2000'", 1: "'9P2000.u'", 2: "6 arbitrary bytes", 3: "7 arbitrary bytes", 4: "8 arbitrary bytes"}[k]
    return {"harness": "vxH12Version", "args": [str(k)], "files": F12, "reach": ["negotiated", "refused"],
            "bounds": f"one Tversion through Process(): server msize symbolic 32-bit (>= IOHDRSZ, as Srv.Start leaves it), client msize symbolic 32-bit, server dialect symbolic, version string {v}"}
def frame(ms, neg, cl):
    what = {0: "announced size symbolic over 0..6, whole bogus header received (7, 11 or msize bytes)", 1: "announced size symbolic over msize+1..2^32-1, 5/7/11/msize bytes received", 2: "twin: acceptable frame"}[cl]
    return {"harness": "vxH12Frame", "args": [str(ms), b(neg), str(cl)], "files": F12, "preempt": 1, "reach": ["in-range"] if cl == 2 else ["dropped"],
            "bounds": f"real NewConn, server msize {ms}" + (", negotiated down to 24 by a Tversion first" if neg else "") + f"; one receive step: {what}; all other bytes symbolic"}
def bound(m, dotu, mw, pre=0):
    r = {"harness": "vxH12Bound", "args": [str(m), b(dotu), str(mw), str(pre)], "files": F12, "preempt": 1, "reach": ["sent"],
            "bounds": f"real NewConn with msize 96, {pre} requests answered before the negotiation (in flight together, so {pre} reply buffers of the old size are recycled), Tversion negotiates {m} ({'9P2000.u' if dotu else '9P2000'}), recycled buffers available or all in use, "
                      f"then a Tstat whose Rstat is exactly 96 bytes (name/mode/length symbolic); transport accepts <= {mw} bytes per Write; " + ("<= 1 preemption" if pre == 0 else "deterministic schedule")}
    if pre > 0:
        r["preempt"] = 0
        r["free_switches"] = -1
    return r
def client(d, k):
    return {"harness": "vxH12Client", "args": [b(d), str(k)], "files": F12, "preempt": 1, "reach": ["connected"],
            "bounds": f"Connect(msize 64, dotu={b(d)}) against a scripted peer answering Rversion with symbolic 32-bit msize and version kind {k} (0 '9P2000', 1 '9P2000.u', 2..4 arbitrary 6..8 bytes)"}
q12 = [version(k) for k in range(5)]
q12 += [frame(24, False, 0), frame(24, False, 1), frame(24, False, 2), frame(32, False, 0), frame(32, False, 1), frame(64, True, 0), frame(64, True, 1), frame(64, True, 2)]
q12 += [bound(32, False, 1000), bound(48, True, 1000), bound(95, False, 7), bound(96, False, 1), bound(96, True, 1000), bound(48, False, 1000, 3), bound(32, True, 1000, 4), bound(95, True, 7, 2)]
q12 += [{"harness": "vxH12Dialect", "args": ["1"], "files": F12, "reach": ["rstat", "rerror", "rerror-plain", "done"],
         "bounds": "RespondRstat (all Dir fields symbolic, strings 0..1 bytes, .u fields set in both dialects) / RespondError(*Error with text 0..3 bytes and symbolic number) / RespondError(plain error); connection dialect symbolic"}]
q12 += [{"harness": "vxH12DialectE2E", "args": [b(s), b(a)], "files": F12, "preempt": 1, "reach": ["done"],
         "bounds": f"real NewConn, server dotu={b(s)}, client asks for {'9P2000.u' if a else '9P2000'}; then Tstat (Dir fields symbolic, strings 0..1) and a Tclunk of an unknown fid: both frames equal the reference encoding of the negotiated dialect; <= 1 preemption"} for s in (True, False) for a in (True, False)]
q12 += [client(True, 1), client(True, 4)]
q12 += [{"harness": "vxH12Twice", "args": [], "files": F12, "reach": ["done"], "bounds": "two valid Tversions on one connection, each with a symbolic dialect request and any msize >= 24, server dialect symbolic: the second negotiation yields .u iff it asks for it and the server speaks it, msize within both limits"}]
q12 += [{"harness": "vxH13SrvOversize", "args": ["32", "1"], "files": ["api", "ref_wire", "kit_srv", "kit_net", "c13_seg_srv", "over_c13"], "preempt": 0, "free_switches": -1, "reach": ["done"],
         "bounds": "receive loop, msize 32: a well-formed frame of msize+17 bytes between ordinary requests, one segment and every single cut: never executed or answered, connection dropped (workload shared with C13)"}]
q12 += [{"harness": "vxH12SameSeg", "args": [b(c)], "files": F12, "preempt": 0, "free_switches": -1, "reach": ["done"],
         "bounds": f"server msize 8192: a Tversion negotiating any msize in 24..99 and a 100-byte Tattach {'in separate segments' if c else 'in one segment'}: the Tattach is neither executed nor answered, the connection is dropped"} for c in (False, True)]
q12 += [{"harness": "vxH12Retry", "args": [], "files": F12, "reach": ["done"], "bounds": "a Tversion with symbolic msize < 24 (refused) followed by one with symbolic msize >= 24, server msize symbolic: the refusal changes nothing, the retry negotiates min"}]
# error replies at a tiny msize must fit it in both dialects (shared with C06's one-step harness)
q12 += [{"harness": "vxH06Step", "args": [str(t), "true", "24"], "files": ["api", "ref_wire", "kit_srv", "kit_net", "c06"], "reach": ["done"],
         "bounds": f"one request of type {t} at msize 24, symbolic dialect, implementation answering with a 0- or 40-byte error text: the queued reply has a packet that fits its buffer"} for t in (116, 124)]
t12 = list(q12) + [bound(32, True, 1), bound(63, False, 3), bound(95, True, 1000)]
t12 += [{"harness": "vxH12Dialect", "args": ["2"], "files": F12, "reach": ["done"], "bounds": "as H12.dialect with strings 0..2 bytes"}]
t12 += [client(False, 0), client(False, 1), client(True, 0), client(True, 2), client(True, 3), client(False, 4)]
w("C12", {
 "quick": q12,
 "thorough": t12,
 "outside": ["'nor more data than a Tread asked for' (H12.read) is a statement about the file-server implementation (Ufs): checked by the Ufs data harnesses (C14), not here",
             "H12.bound: server msize 96 before the negotiation, negotiated msize in {32,48,63,95,96}; reply types other than Rstat (every Pack* leaves len(Pkt) <= len(Buf): C01)",
             "H12.frame: msize in {24,32,64}; behaviour for announced sizes inside 7..msize (C02/C06/C13)",
             "a second Tversion on a connection that already negotiated (the statement does not say whether the minimum is taken with the server's or the connection's msize)",
             "state of the connection after a refused Tversion", "client: peer answering Rerror or garbage to Tversion (C10)"],
 "assumptions": [SCHED_ASSUME, "oracle: harness/ref_wire.go (independent layout table + little-endian encoder)",
                 "allocation bound of H12.frame: 8*msize + 64 KiB (flags buffering in proportion to the announced size, not bookkeeping)",
                 "H12.client: client msize concrete (64) because buffer lengths are concrete in the engine; the peer's msize and version bytes are symbolic"],
})
